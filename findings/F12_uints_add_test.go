package probe

import (
	"math/big"
	"testing"

	"github.com/consensys/gnark-crypto/ecc"
	"github.com/consensys/gnark/constraint/solver"
	"github.com/consensys/gnark/frontend"
	"github.com/consensys/gnark/frontend/cs/r1cs"
	"github.com/consensys/gnark/frontend/cs/scs"
	"github.com/consensys/gnark/std/math/bitslice"
	"github.com/consensys/gnark/std/math/uints"
)

// c = a + b over 32-bit words; the circuit asserts the gadget's result equals the PUBLIC value R.
type AddC struct {
	A, B frontend.Variable
	R    frontend.Variable `gnark:",public"`
}

func (c *AddC) Define(api frontend.API) error {
	u, err := uints.New[uints.U32](api)
	if err != nil {
		return err
	}
	a := u.ValueOf(c.A)
	b := u.ValueOf(c.B)
	s := u.Add(a, b)
	api.AssertIsEqual(u.ToValue(s), c.R)
	return nil
}

func TestF12UintsAddForge(t *testing.T) {
	field := ecc.BN254.ScalarField()
	// locate the partition hint id through the exported list
	hints := bitslice.GetHints()
	pid := solver.GetHintID(hints[0])
	for name, mk := range map[string]func() (interface {
		Solve(w interface{}, opts ...solver.Option) (any, error)
	}, error){} {
		_ = name
		_ = mk
	}
	for _, b := range []string{"r1cs", "scs"} {
		var nb frontend.NewBuilder = r1cs.NewBuilder
		if b == "scs" {
			nb = scs.NewBuilder
		}
		ccs, err := frontend.Compile(field, nb, &AddC{})
		if err != nil {
			t.Fatal(err)
		}
		// honest: 5 + 7 = 12
		w, _ := frontend.NewWitness(&AddC{A: 5, B: 7, R: 12}, field)
		_, err = ccs.Solve(w)
		t.Logf("F12 %s honest 5+7=12: err=%v", b, err)
		// dishonest claim: 5 + 7 = 1000, with the partition hint returning a wrong low part
		w2, _ := frontend.NewWitness(&AddC{A: 5, B: 7, R: 1000}, field)
		_, err = ccs.Solve(w2)
		t.Logf("F12 %s claim 5+7=1000 with honest hints: err=%v", b, err != nil)
		evil := func(_ *big.Int, in []*big.Int, out []*big.Int) error {
			// in[0]=split, in[1]=v ; out[0]=upper, out[1]=lower
			out[0].SetUint64(0)
			out[1].SetUint64(1000)
			return nil
		}
		_, err = ccs.Solve(w2, solver.OverrideHint(pid, evil))
		t.Logf("F12 %s claim 5+7=1000 with a DISHONEST partition hint: solve err = %v   (nil = the gadget accepts a wrong sum)", b, err)
	}
}

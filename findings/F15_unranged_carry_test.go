package emulated

import (
	"math/big"
	"testing"

	"github.com/consensys/gnark-crypto/ecc"
	"github.com/consensys/gnark/constraint/solver"
	"github.com/consensys/gnark/frontend"
	"github.com/consensys/gnark/backend"
	"github.com/consensys/gnark/backend/groth16"
	"github.com/consensys/gnark/frontend/cs/r1cs"
	limbs "github.com/consensys/gnark/std/internal/limbcomposition"
)

type scratchMulCircuit[T FieldParams] struct {
	A, B Element[T]
	C    []frontend.Variable
}

func (c *scratchMulCircuit[T]) Define(api frontend.API) error {
	f, err := NewField[T](api)
	if err != nil {
		return err
	}
	res := f.Mul(&c.A, &c.B)
	for i := range res.Limbs {
		api.AssertIsEqual(res.Limbs[i], c.C[i])
	}
	return nil
}

// evil mul hint: computes quo, rem for a*b + shift*nativeModulus and carries in the native field.
func evilMulHint(shift int64) solver.Hint {
	return func(field *big.Int, inputs, outputs []*big.Int) error {
		nbBits := int(inputs[0].Int64())
		nbLimbs := int(inputs[1].Int64())
		nbALen := int(inputs[2].Int64())
		nbQuoLen := int(inputs[3].Int64())
		nbBLen := len(inputs) - 4 - nbLimbs - nbALen
		ptr := 4
		plimbs := inputs[ptr : ptr+nbLimbs]
		ptr += nbLimbs
		alimbs := inputs[ptr : ptr+nbALen]
		ptr += nbALen
		blimbs := inputs[ptr : ptr+nbBLen]
		nbCarryLen := max(nbMultiplicationResLimbs(nbALen, nbBLen), nbMultiplicationResLimbs(nbQuoLen, nbLimbs)) - 1
		outptr := 0
		quoLimbs := outputs[outptr : outptr+nbQuoLen]
		outptr += nbQuoLen
		remLimbs := outputs[outptr : outptr+nbLimbs]
		outptr += nbLimbs
		carryLimbs := outputs[outptr : outptr+nbCarryLen]
		p, a, b := new(big.Int), new(big.Int), new(big.Int)
		limbs.Recompose(plimbs, uint(nbBits), p)
		limbs.Recompose(alimbs, uint(nbBits), a)
		limbs.Recompose(blimbs, uint(nbBits), b)
		ab := new(big.Int).Mul(a, b)
		ab.Add(ab, new(big.Int).Mul(big.NewInt(shift), field))
		quo, rem := new(big.Int), new(big.Int)
		quo.QuoRem(ab, p, rem)
		if err := limbs.Decompose(quo, uint(nbBits), quoLimbs); err != nil {
			return err
		}
		if err := limbs.Decompose(rem, uint(nbBits), remLimbs); err != nil {
			return err
		}
		lhs := limbMul(alimbs, blimbs)
		rhs := limbMul(quoLimbs, plimbs)
		for i := range remLimbs {
			if i < len(rhs) {
				rhs[i].Add(rhs[i], remLimbs[i])
			} else {
				rhs = append(rhs, new(big.Int).Set(remLimbs[i]))
			}
		}
		// carries in the native field: c_i = (c_{i-1} + l_i - h_i) / 2^w mod field
		inv := new(big.Int).Lsh(big.NewInt(1), uint(nbBits))
		inv.ModInverse(inv, field)
		carry := new(big.Int)
		for i := range carryLimbs {
			if i < len(lhs) {
				carry.Add(carry, lhs[i])
			}
			if i < len(rhs) {
				carry.Sub(carry, rhs[i])
			}
			carry.Mul(carry, inv).Mod(carry, field)
			carryLimbs[i] = new(big.Int).Set(carry)
		}
		return nil
	}
}

func TestF15UnrangedCarrySolve(t *testing.T) {
	type T = Secp256k1Fp
	var fp T
	field := ecc.BN254.ScalarField()
	a := new(big.Int).Sub(fp.Modulus(), big.NewInt(12345))
	b := new(big.Int).Sub(fp.Modulus(), big.NewInt(987654321))
	for _, shift := range []int64{0, 1} {
		ab := new(big.Int).Mul(a, b)
		ab.Add(ab, new(big.Int).Mul(big.NewInt(shift), field))
		ab.Mod(ab, fp.Modulus())
		cl := make([]*big.Int, fp.NbLimbs())
		for i := range cl {
			cl[i] = new(big.Int)
		}
		limbs.Decompose(ab, fp.BitsPerLimb(), cl)
		circuit := &scratchMulCircuit[T]{C: make([]frontend.Variable, fp.NbLimbs())}
		assignment := &scratchMulCircuit[T]{A: ValueOf[T](a), B: ValueOf[T](b), C: make([]frontend.Variable, fp.NbLimbs())}
		for i := range cl {
			assignment.C[i] = cl[i]
		}
		ccs, err := frontend.Compile(field, r1cs.NewBuilder, circuit)
		if err != nil {
			t.Fatal(err)
		}
		w, err := frontend.NewWitness(assignment, field)
		if err != nil {
			t.Fatal(err)
		}
		_, err = ccs.Solve(w, solver.OverrideHint(solver.GetHintID(mulHint), evilMulHint(shift)))
		t.Logf("shift %d: solve err = %v", shift, err)
	}
}


// Full Groth16 run: the forged product (a*b + r_native mod p, which is NOT a*b mod p) is proved and verified.
func TestF15UnrangedCarryGroth16(t *testing.T) {
	type T = Secp256k1Fp
	var fp T
	field := ecc.BN254.ScalarField()
	a := new(big.Int).Sub(fp.Modulus(), big.NewInt(12345))
	b := new(big.Int).Sub(fp.Modulus(), big.NewInt(987654321))
	honest := new(big.Int).Mul(a, b)
	honest.Mod(honest, fp.Modulus())
	forged := new(big.Int).Mul(a, b)
	forged.Add(forged, field)
	forged.Mod(forged, fp.Modulus())
	if honest.Cmp(forged) == 0 {
		t.Fatal("test vector degenerate")
	}
	cl := make([]*big.Int, fp.NbLimbs())
	for i := range cl {
		cl[i] = new(big.Int)
	}
	limbs.Decompose(forged, fp.BitsPerLimb(), cl)
	circuit := &scratchMulCircuitPub[T]{C: make([]frontend.Variable, fp.NbLimbs())}
	assignment := &scratchMulCircuitPub[T]{A: ValueOf[T](a), B: ValueOf[T](b), C: make([]frontend.Variable, fp.NbLimbs())}
	for i := range cl {
		assignment.C[i] = cl[i]
	}
	ccs, err := frontend.Compile(field, r1cs.NewBuilder, circuit)
	if err != nil {
		t.Fatal(err)
	}
	pk, vk, err := groth16.Setup(ccs)
	if err != nil {
		t.Fatal(err)
	}
	w, err := frontend.NewWitness(assignment, field)
	if err != nil {
		t.Fatal(err)
	}
	proof, err := groth16.Prove(ccs, pk, w, backend.WithSolverOptions(solver.OverrideHint(solver.GetHintID(mulHint), evilMulHint(1))))
	if err != nil {
		t.Logf("prove failed (the circuit rejects the forged product): %v", err)
		return
	}
	pw, _ := w.Public()
	if err := groth16.Verify(proof, vk, pw); err != nil {
		t.Logf("verify failed: %v", err)
		return
	}
	t.Errorf("FORGED: a proof that %s * %s = %s (mod p) verified, the true product is %s", a, b, forged, honest)
}

type scratchMulCircuitPub[T FieldParams] struct {
	A, B Element[T]
	C    []frontend.Variable `gnark:",public"`
}

func (c *scratchMulCircuitPub[T]) Define(api frontend.API) error {
	f, err := NewField[T](api)
	if err != nil {
		return err
	}
	res := f.Mul(&c.A, &c.B)
	for i := range res.Limbs {
		api.AssertIsEqual(res.Limbs[i], c.C[i])
	}
	return nil
}

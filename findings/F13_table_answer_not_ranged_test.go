package probe

import (
	"math/big"
	"testing"

	"github.com/consensys/gnark-crypto/ecc"
	"github.com/consensys/gnark/constraint/solver"
	"github.com/consensys/gnark/frontend"
	"github.com/consensys/gnark/frontend/cs/scs"
	"github.com/consensys/gnark/std/math/uints"
)

// R (a native field element, public) == value of (A xor B) where A, B are 32-bit words given as native values.
type XorC struct {
	A, B frontend.Variable
	R    frontend.Variable `gnark:",public"`
}

func (c *XorC) Define(api frontend.API) error {
	u, err := uints.New[uints.U32](api)
	if err != nil {
		return err
	}
	a := u.ValueOf(c.A) // bytes are range-checked here
	b := u.ValueOf(c.B)
	x := u.Xor(a, b)
	api.AssertIsEqual(u.ToValue(x), c.R)
	return nil
}

func TestF13XorTableOutputNotRangeChecked(t *testing.T) {
	field := ecc.BN254.ScalarField()
	ccs, err := frontend.Compile(field, scs.NewBuilder, &XorC{})
	if err != nil {
		t.Fatal(err)
	}
	// honest: 0x00050000 xor 0x00030000 = 0x00060000
	A, B := int64(0x00050000), int64(0x00030000)
	w, _ := frontend.NewWitness(&XorC{A: A, B: B, R: 0x00060000}, field)
	_, err = ccs.Solve(w)
	t.Logf("F13 honest xor: err=%v", err)

	// dishonest: for byte index 2 (x=5, y=3) answer as if the row were (x'=9, y'=3):
	// r = f(9,3) + ((9-5) + 256*(3-3)) / 65536  (mod p)   -> word value changes by 65536*(f'-f) + 4
	inv := new(big.Int).ModInverse(big.NewInt(65536), field)
	target := int64(0x00060000) + 65536*((9^3)-(5^3)) + 4
	w2, _ := frontend.NewWitness(&XorC{A: A, B: B, R: target}, field)
	// find the xor hint: it is the only hint taking two inputs and one output whose honest answer is x^y;
	// we override every registered hint with that behaviour by wrapping.
	var opts []solver.Option
	for _, h := range solver.GetRegisteredHints() {
		h := h
		id := solver.GetHintID(h)
		opts = append(opts, solver.OverrideHint(id, func(m *big.Int, in, out []*big.Int) error {
			if err := h(m, in, out); err != nil {
				return err
			}
			if len(in) == 2 && len(out) == 1 && in[0].IsInt64() && in[1].IsInt64() && in[0].Int64() == 5 && in[1].Int64() == 3 &&
				out[0].IsInt64() && out[0].Int64() == (5^3) {
				r := big.NewInt(4) // (x'-x) + 256 (y'-y)
				r.Mul(r, inv).Add(r, big.NewInt(9^3)).Mod(r, m)
				out[0].Set(r)
			}
			return nil
		}))
	}
	_, err = ccs.Solve(w2, opts...)
	t.Logf("F13 claim (A xor B) = %#x instead of 0x60000 with a DISHONEST table answer: solve err = %v (nil = accepted)", target, err)
}

package gkr

// F16 (C19): Solution.Export returns the values of an output variable in the wrong instance order when the
// permutation that sorts the instances by dependency is not an involution.
// Replay: cd /repo && echo '{"Replace":{"/repo/std/gkr/zz_f16_test.go":"/verif/findings/F16_gkr_export_order_test.go"}}' > /var/tmp/ov16.json
//         && go test -overlay /var/tmp/ov16.json -vet=off -count=1 -timeout 300s -run TestF16 ./std/gkr/
import (
	"testing"

	"github.com/consensys/gnark-crypto/ecc"
	"github.com/consensys/gnark/constraint"
	"github.com/consensys/gnark/frontend"
	"github.com/consensys/gnark/test"
)

type f16Circuit struct {
	X2, X3 frontend.Variable
	Y      []frontend.Variable
	// if set, instance 1 depends on instance 0 which depends on instance 2 (sorted order 2,0,1,3: a 3-cycle);
	// otherwise only instance 0 depends on instance 2 (sorted order 2,0,1,3 as well) -- see below
	chain bool
}

func (c *f16Circuit) Define(api frontend.API) error {
	// direct evaluation of the same gates on the imported inputs, instance by instance (computed first: Solve permutes
	// the slices it was given in place)
	z2 := api.Mul(c.X2, c.Y[2])
	z0 := api.Mul(z2, c.Y[0])
	var z1 frontend.Variable
	if c.chain {
		z1 = api.Mul(z0, c.Y[1])
	} else {
		z1 = api.Mul(c.X3, c.Y[1])
	}
	z3 := api.Mul(c.X3, c.Y[3])
	gkr := NewApi()
	X := make([]frontend.Variable, 4)
	X[2], X[3] = c.X2, c.X3
	if !c.chain {
		X[1] = c.X3
	}
	x, err := gkr.Import(X)
	if err != nil {
		return err
	}
	var y constraint.GkrVariable
	if y, err = gkr.Import(append([]frontend.Variable{}, c.Y...)); err != nil {
		return err
	}
	z := gkr.Mul(x, y)
	gkr.Series(x, z, 0, 2) // x[0] := z[2]
	if c.chain {
		gkr.Series(x, z, 1, 0) // x[1] := z[0]
	}
	solution, err := gkr.Solve(api)
	if err != nil {
		return err
	}
	Z := solution.Export(z)
	api.AssertIsEqual(Z[0], z0)
	api.AssertIsEqual(Z[1], z1)
	api.AssertIsEqual(Z[2], z2)
	api.AssertIsEqual(Z[3], z3)
	return solution.Verify("-20")
}

func TestF16ExportOrder(t *testing.T) {
	registerMiMC()
	for _, chain := range []bool{false, true} {
		assignment := f16Circuit{X2: 2, X3: 3, Y: []frontend.Variable{5, 7, 11, 13}, chain: chain}
		circuit := f16Circuit{Y: make([]frontend.Variable, 4), chain: chain}
		if err := test.IsSolved(&circuit, &assignment, ecc.BN254.ScalarField()); err != nil {
			t.Errorf("chain=%v: exported values differ from direct evaluation: %v", chain, err)
		}
	}
}

//go:build verif

package toy

//@ contract func MaxIndex
//@   props T1
//@   requires len(a) > 0
//@   nopanic
//@   loop 1 invariant 0 <= best && best < i && i <= len(a)
//@   loop 1 invariant forall k int :: 0 <= k && k < i ==> a[k] <= a[best]
//@   ensures 0 <= result && result < len(a)
//@   ensures forall k int :: 0 <= k && k < len(a) ==> a[k] <= a[result]

//@ contract func SumFirst
//@   props T2
//@   requires p != nil
//@   nopanic

//@ contract func SumChecked
//@   props T1
//@   requires p != nil
//@   nopanic
//@   ensures err == nil ==> 0 <= n && n <= len(p.Items)

//@ contract func UseHelper
//@   props T1
//@   nopanic

//@ contract func AppendAlias
//@   props T2
//@   assigns
//@   ensures @noalias forall k int :: 0 <= k && k < cap(s) ==> s[0:cap(s)][k] == old(s[0:cap(s)][k])

//@ contract func AppendCopy
//@   props T1
//@   nopanic
//@   ensures @noalias forall k int :: 0 <= k && k < cap(s) ==> s[0:cap(s)][k] == old(s[0:cap(s)][k])
//@   ensures len(result) == len(s) + 1 && result[len(s)] == v

//@ contract func Fill
//@   props T1
//@   nopanic
//@   loop 1 invariant forall k int :: 0 <= k && k <= rangeindex ==> dst[k] == v
//@   ensures forall k int :: 0 <= k && k < len(dst) ==> dst[k] == v

//@ contract func InvertPermutation
//@   props T1
//@   requires forall k int :: 0 <= k && k < len(p) ==> 0 <= p[k] && p[k] < len(p)
//@   requires forall j int, k int :: 0 <= j && j < k && k < len(p) ==> p[j] != p[k]
//@   nopanic
//@   loop 1 invariant len(res) == len(p) && (forall k int :: 0 <= k && k <= rangeindex ==> res[p[k]] == k)
//@   ensures len(result) == len(p)
//@   ensures forall k int :: 0 <= k && k < len(p) ==> result[p[k]] == k

//@ contract func CallClassify
//@   props T1
//@   nopanic
//@   ensures result == 7

module toy

go 1.23.0

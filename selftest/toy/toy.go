package toy

import "errors"

type Proof struct {
	A, B  int
	Items []int
	Vals  []uint64
}

var errBad = errors.New("bad")

// MaxIndex returns the index of a maximal element.
func MaxIndex(a []int) int {
	best := 0
	for i := 1; i < len(a); i++ {
		if a[i] > a[best] {
			best = i
		}
	}
	return best
}

// SumFirst indexes without a check (must fail nopanic)
func SumFirst(p *Proof, n int) int {
	s := 0
	for i := 0; i < n; i++ {
		s += p.Items[i]
	}
	return s
}

// SumChecked checks first
func SumChecked(p *Proof, n int) (int, error) {
	if n < 0 || n > len(p.Items) {
		return 0, errBad
	}
	s := 0
	for i := 0; i < n; i++ {
		s += p.Items[i]
	}
	return s, nil
}

func helper(x int) int { return x + 1 }

func UseHelper(a []int, k int) int {
	if k < 0 || helper(k) >= len(a) {
		return -1
	}
	return a[helper(k)]
}

// AppendAlias appends into the caller's slice
func AppendAlias(s []int, v int) []int {
	t := append(s, v)
	return t
}

func AppendCopy(s []int, v int) []int {
	t := append(s[:len(s):len(s)], v)
	return t
}

func Fill(dst []int, v int) {
	for i := range dst {
		dst[i] = v
	}
}

func InvertPermutation(p []int) []int {
	res := make([]int, len(p))
	for i := range p {
		res[p[i]] = i
	}
	return res
}

type Shape interface{ Area() int }
type Sq struct{ S int }

func (s Sq) Area() int { return s.S * s.S }

func Classify(x interface{}) int {
	switch v := x.(type) {
	case int:
		return v
	case Sq:
		return v.S
	}
	return -1
}

func CallClassify() int { return Classify(Sq{7}) }

#!/bin/bash
# Must-fail corpus: every entry is a change to /repo (applied IN MEMORY through an overlay; /repo is not touched)
# that breaks a property; the named obligation must fail. Also runs the toy programs.
# usage: selftest/run.sh [filter-regex]
cd "$(dirname "$0")/.."
export GOFLAGS=-mod=mod GOPROXY=off GOSUMDB=off GOTOOLCHAIN=local
filter="${1:-.}"
fail=0; n=0
tmp=$(mktemp -d /var/tmp/verif-selftest.XXXXXX); trap 'rm -rf "$tmp"' EXIT
while IFS='|' read -r name patch rev prop pkgs expect; do
  name=$(echo $name); [ -z "$name" ] && continue; case "$name" in \#*) continue;; esac
  echo "$name" | grep -Eq "$filter" || continue
  patch=$(echo $patch); rev=$(echo $rev); prop=$(echo $prop); pkgs=$(echo $pkgs); expect=$(echo $expect)
  if [ -n "$PROP_ONLY" ] && [ "$prop" != "$PROP_ONLY" ]; then continue; fi
  n=$((n+1))
  flag=""; [ "$rev" = "R" ] && flag="-R"
  if ! python3 tools/mkoverlay.py "$patch" /repo $flag > "$tmp/ov.json" 2>"$tmp/err"; then
    echo "selftest SKIP $name: patch does not apply ($(head -c 200 $tmp/err))"; fail=1; continue
  fi
  pk=(-pkgs "$pkgs"); [ "$pkgs" = "-" ] && pk=()
  # only the function the expected obligation belongs to is verified (the part of the expectation before '#')
  on=(); case "$prop:$expect" in C10:*|C11:*) ;; *\#*) o="${expect%%#*}"; [ -n "$o" ] && on=(-only "$o");; esac
  if out=$(bin/govc verify -prop "$prop" "${pk[@]}" "${on[@]}" -overlay "$tmp/ov.json" -expect-fail "$expect" 2>&1); then
    echo "ok   $name: $(echo "$out" | tail -1)"
  else
    echo "FAIL $name: $(echo "$out" | tail -2)"; fail=1
  fi
done < selftest/corpus.txt
# toy programs: T1 must verify, T2 must fail its two named obligations
if [ -z "$PROP_ONLY" ] && echo toy | grep -Eq "$filter"; then
  bin/govc verify -prop T1 -repo /verif/selftest/toy -verif "$tmp" -pkgs . >"$tmp/t1" 2>&1 || { echo "FAIL toy T1"; tail -3 "$tmp/t1"; fail=1; }
  bin/govc verify -prop T2 -repo /verif/selftest/toy -verif "$tmp" -pkgs . -expect-fail 'SumFirst#index' >/dev/null 2>&1 || { echo "FAIL toy T2 SumFirst"; fail=1; }
  bin/govc verify -prop T2 -repo /verif/selftest/toy -verif "$tmp" -pkgs . -expect-fail 'AppendAlias#ensures' >/dev/null 2>&1 || { echo "FAIL toy T2 AppendAlias"; fail=1; }
  echo "ok   toy programs"
fi
echo "selftest: $n corpus entries, status $fail"
exit $fail

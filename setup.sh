#!/bin/bash
# builds govc offline from files on disk only
set -e
cd "$(dirname "$0")"
export GOFLAGS=-mod=mod GOPROXY=off GOSUMDB=off GOTOOLCHAIN=local
if [ -d govc ]; then (cd govc && go build -o ../bin/govc . ); fi

package main

import (
	"runtime/debug"
	"encoding/json"
	"flag"
	"fmt"
	"os"
	"path/filepath"
	"regexp"
	"sort"
	"strings"
	"sync"
	"time"

	"golang.org/x/tools/go/ssa"
)

type PropCfg struct {
	Packages  []string `json:"packages"`
	Effects   *EffectCfg `json:"effects,omitempty"`
	Note      string   `json:"note,omitempty"`
	Assumed   []string `json:"assumed,omitempty"`
	NotDecided []string `json:"not_decided,omitempty"`
	// LevelOther: the evidence level is 'other' even when every obligation is discharged (e.g. part of the claim rests on a
	// bounded stand-in); the text becomes coverage.explanation
	LevelOther string `json:"level_other,omitempty"`
}

type runResult struct {
	vcs   []*VC
	obls  []*Obl
	missing []string
	effects []*EffectObl
}

func hasProp(ps []string, p string) bool {
	for _, x := range ps {
		if x == p {
			return true
		}
	}
	return false
}

func contractServes(c *Contract, prop string) bool {
	if hasProp(c.Props, prop) || hasProp(c.NoPanicPr, prop) {
		return true
	}
	for _, cl := range c.Ensures {
		if hasProp(cl.Props, prop) {
			return true
		}
	}
	for _, cls := range c.Loops {
		for _, cl := range cls {
			if hasProp(cl.Props, prop) {
				return true
			}
		}
	}
	return false
}

func oblServes(o *Obl, c *Contract, prop string) bool {
	if len(o.Props) > 0 {
		return hasProp(o.Props, prop)
	}
	return hasProp(c.Props, prop) || len(c.Props) == 0
}

func main() {
	if len(os.Args) < 2 {
		fmt.Println("usage: govc verify|dump ...")
		os.Exit(2)
	}
	switch os.Args[1] {
	case "verify":
		os.Exit(cmdVerify(os.Args[2:]))
	default:
		fmt.Println("unknown command")
		os.Exit(2)
	}
}

func cmdVerify(args []string) int {
	fs := flag.NewFlagSet("verify", flag.ExitOnError)
	prop := fs.String("prop", "", "property id")
	tier := fs.String("tier", "quick", "quick|thorough")
	repo := fs.String("repo", "/repo", "repository root")
	verif := fs.String("verif", "/verif", "verif root")
	only := fs.String("only", "", "regexp on function names")
	timeout := fs.Int("timeout", 0, "solver timeout (s)")
	keep := fs.Bool("keep", false, "keep SMT files")
	overlayPatch := fs.String("overlay", "", "JSON file {path: content} applied in memory")
	expectFail := fs.String("expect-fail", "", "selftest: regexp of an obligation name that must fail (exit 0 iff it does)")
	pkgsFlag := fs.String("pkgs", "", "override package patterns (comma separated)")
	jobs := fs.Int("j", 12, "parallel obligations")
	verbose := fs.Bool("v", false, "verbose")
	fs.Parse(args)
	start := time.Now()
	to := *timeout
	if to == 0 {
		to = 20
		if *tier == "thorough" {
			to = 120
		}
	}
	// property configuration
	var cfgs map[string]*PropCfg
	if b, err := os.ReadFile(filepath.Join(*verif, "props.json")); err == nil {
		if err := json.Unmarshal(b, &cfgs); err != nil {
			fmt.Println("props.json:", err)
			return 2
		}
	}
	cfg := cfgs[*prop]
	if cfg == nil {
		cfg = &PropCfg{}
	}
	if *pkgsFlag != "" {
		cfg.Packages = strings.Split(*pkgsFlag, ",")
	}
	if len(cfg.Packages) == 0 {
		fmt.Println("no packages configured for", *prop)
		return 2
	}
	var overlay map[string][]byte
	if *overlayPatch != "" {
		b, err := os.ReadFile(*overlayPatch)
		if err != nil {
			fmt.Println(err)
			return 2
		}
		var m map[string]string
		if err := json.Unmarshal(b, &m); err != nil {
			fmt.Println(err)
			return 2
		}
		overlay = map[string][]byte{}
		for k, v := range m {
			overlay[k] = []byte(v)
		}
	}
	eng := newEngine(*repo)
	if err := eng.cs.loadExtDir(filepath.Join(*verif, "contracts", "ext")); err != nil {
		fmt.Println("ext contracts:", err)
		return 2
	}
	if err := eng.load(cfg.Packages, overlay); err != nil {
		fmt.Println("load:", err)
		// a tree that does not build cannot be verified: report as error, not as violation
		return 2
	}
	loadT := time.Since(start)
	var onlyRe *regexp.Regexp
	if *only != "" {
		onlyRe = regexp.MustCompile(*only)
	}
	res := &runResult{}
	// contracts serving this property
	var keys []string
	for k, c := range eng.cs.ByKey {
		if contractServes(c, *prop) && !strings.HasSuffix(c.File, ".spec") {
			keys = append(keys, k)
		}
	}
	sort.Strings(keys)
	conOf := map[*VC]*Contract{}
	for _, k := range keys {
		c := eng.cs.ByKey[k]
		if onlyRe != nil && !onlyRe.MatchString(k) {
			continue
		}
		if c.Trusted != "" {
			continue
		}
		fn := eng.findFunction(k)
		if fn == nil || len(fn.Blocks) == 0 {
			res.missing = append(res.missing, k)
			continue
		}
		modes := c.Modes
		if len(modes) == 0 {
			modes = []string{"plain"}
		}
		for _, m := range modes {
			vc := safeVerify(eng, fn, c, m)
			vc.axioms = eng.relevantAxioms(vc)
			conOf[vc] = c
			res.vcs = append(res.vcs, vc)
			for _, o := range vc.obls {
				if oblServes(o, c, *prop) {
					res.obls = append(res.obls, o)
				}
			}
		}
	}
	// the assigns clause of every verified contract is an obligation too (provenance back end)
	{
		var fa *frameAnalysis
		for _, k := range keys {
			c := eng.cs.ByKey[k]
			if !c.HasAssigns || c.Trusted != "" || (onlyRe != nil && !onlyRe.MatchString(k)) {
				continue
			}
			fn := eng.findFunction(k)
			if fn == nil || len(fn.Blocks) == 0 {
				continue
			}
			if fa == nil {
				fa, _ = newFrameAnalysis(eng)
			}
			res.effects = append(res.effects, checkAssigns(eng, fa, fn, c)...)
		}
	}
	// effect / frame obligations (C10, C11)
	if cfg.Effects != nil {
		res.effects = append(res.effects, runEffects(eng, cfg.Effects, *prop)...)
	}
	genT := time.Since(start)
	// discharge
	tmp, _ := os.MkdirTemp("", "govc")
	if !*keep {
		defer os.RemoveAll(tmp)
	} else {
		fmt.Println("SMT files in", tmp)
	}
	vcOf := map[*Obl]*VC{}
	for _, vc := range res.vcs {
		for _, o := range vc.obls {
			vcOf[o] = vc
		}
	}
	// pass 1: one incremental solver session per function (split into a few workers);
	// pass 2: every obligation not settled there is raced standalone on all three back ends.
	var wg sync.WaitGroup
	sem := make(chan struct{}, *jobs)
	want := map[*Obl]bool{}
	var expRe *regexp.Regexp
	if *expectFail != "" {
		expRe = regexp.MustCompile(*expectFail)
	}
	for _, o := range res.obls {
		// selftest: only the obligations the expectation names are solved
		want[o] = expRe == nil || expRe.MatchString(o.Name)
	}
	for _, vc := range res.vcs {
		var mine []*Obl
		for _, o := range vc.obls {
			if !want[o] {
				continue
			}
			if !o.Cover && (o.Goal == "true" || o.Reach == "false") {
				o.Result = SolverResult{Status: "unsat", Backend: "trivial"}
				continue
			}
			mine = append(mine, o)
		}
		k := len(mine)/20 + 1
		if k > 6 {
			k = 6
		}
		for w := 0; w < k; w++ {
			var part []*Obl
			for i, o := range mine {
				if i%k == w {
					part = append(part, o)
				}
			}
			if len(part) == 0 {
				continue
			}
			wg.Add(1)
			go func(vc *VC, part []*Obl, w int) {
				defer wg.Done()
				sem <- struct{}{}
				defer func() { <-sem }()
				runSession(vc, part, tmp, w)
			}(vc, part, w)
		}
	}
	wg.Wait()
	knownList := loadKnown(*verif)
	for _, o := range res.obls {
		settled := o.Result.Status == "unsat" || (o.Cover && o.Result.Status != "unsat")
		if o.Cover && o.Result.Status == "unsat" {
			settled = false // a vacuous precondition is re-checked standalone before it is reported
		}
		if settled || o.Result.Backend == "trivial" || !want[o] {
			continue
		}
		wg.Add(1)
		go func(o *Obl) {
			defer wg.Done()
			sem <- struct{}{}
			defer func() { <-sem }()
			q := vcOf[o].query(o)
			first := o.Result
			t := to
			if o.Cover && t > 6 {
				t = 6 // vacuity checks are advisory: "unknown" is accepted
			}
			// one race per obligation; the second, longer attempt comes below, and only when few are left
			o.Result = solveOnce(q, tmp, o.Name, t, true)
			o.Result.Ms += first.Ms
		}(o)
	}
	wg.Wait()
	// a timeout on a loaded machine must not become an alarm: obligations still undecided get one more race
	// with twice the budget, unless there are many of them (then the tree is broken, not the machine
	// slow) or they are recorded findings / selftest expectations
	var again []*Obl
	for _, o := range res.obls {
		if !want[o] || o.Cover || o.Result.Backend == "trivial" || o.Result.Status == "unsat" || o.Result.Status == "sat" {
			continue
		}
		if o.Result.Status == "" || *expectFail != "" || matchKnown(knownList, *prop, o.Name) != nil {
			continue
		}
		again = append(again, o)
	}
	if len(again) <= 6 {
		for _, o := range again {
			wg.Add(1)
			go func(o *Obl) {
				defer wg.Done()
				sem <- struct{}{}
				defer func() { <-sem }()
				first := o.Result
				r2 := solveOnce(vcOf[o].query(o), tmp, o.Name, 2*to, false)
				if r2.Status == "unsat" || r2.Status == "sat" {
					r2.Ms += first.Ms
					o.Result = r2
				}
			}(o)
		}
		wg.Wait()
	}
	return report(eng, *prop, *tier, *verif, cfg, res, vcOf, conOf, start, loadT, genT, *expectFail, *verbose, to)
}

func safeVerify(eng *Engine, fn *ssa.Function, c *Contract, mode string) (vc *VC) {
	defer func() {
		if r := recover(); r != nil {
			name := shortName(normKey(fn.String()))
			if os.Getenv("GOVC_DEBUG") != "" {
				fmt.Fprintf(os.Stderr, "engine error in %s: %v\n%s\n", name, r, debug.Stack())
			}
			vc = newVC(eng, name)
			vc.oblig("engine-error", "", "true", "false", eng.prog.Fset.Position(fn.Pos()), c.Props, fmt.Sprintf("verifier failed on this function: %v", r))
		}
	}()
	return eng.verifyFunc(fn, c, mode)
}

package main

// replayFailure tries to turn a failed obligation into a run of the real code.
func replayFailure(eng *Engine, prop string, f failure, verif, outDir string, rep map[string]interface{}) bool {
	return false
}

package main

import (
	"fmt"
	"regexp"
	"strconv"
	"go/token"
	"go/types"
	"sort"
	"strings"
)

// Obl is one named proof obligation: (lines[0:LineIdx] ∧ Reach ∧ ¬Goal) must be unsat.
type Obl struct {
	Name    string
	Kind    string
	Goal    string
	Reach   string
	Pos     token.Position
	LineIdx int
	Props   []string
	Text    string
	Func    string
	Result  SolverResult
	Cover   bool // cover obligation: expected sat
}

// VC accumulates the SMT text for one function under contract.
type VC struct {
	eng     *Engine
	lines   []string
	declared map[string]string
	obls    []*Obl
	n       int
	sorts   map[Sort]bool
	unmodelled map[string]bool
	assumptions map[string]bool
	axiomsUsed  map[string]bool
	funcName string
	counters map[string]int
	extraAxioms []string
	macroNames  map[string]string
	boxComps    map[string][]string
	prefixApps  map[string][]prefixApp
	decls []string
	axioms []string
	links map[string]*memLink
	birth map[string]int
	isAlloc map[string]bool
	clock int
	nilChecked map[string]bool
	memClock map[string]int
	defOf    map[string]string
	distinctFacts map[string]bool
	fdefs    map[string]fdef
	ringDone map[string]bool
	rules    []ringRule
	normTerms []normTerm
	rulesSwept, termsSwept int
	sweeping bool
	ruleSeen map[string]bool
	ringNF   map[string]string
	isFresh  map[string]bool
}

// memLink records how a memory symbol was derived from its parent, so that a
// load can be resolved at generation time to the earliest equivalent memory
// (keeps quantifier patterns of contracts matching syntactically).
type memLink struct {
	parent string
	ref    string
	row    string // row-level update (whole row replaced)
	slot   string // cell-level update
	val    string
	// frame link: rows born before `before` and distinct from roots are unchanged
	frame  bool
	before int
	roots  []string
	alts   []string // the updated row is one of these (e.g. append: in place or a fresh array)
}

func (vc *VC) noteBirth(ref string) {
	if vc.birth == nil {
		vc.birth = map[string]int{}
		vc.isAlloc = map[string]bool{}
		vc.links = map[string]*memLink{}
	}
	if _, ok := vc.birth[ref]; !ok {
		vc.birth[ref] = vc.clock
	}
}

func isIntLit(s string) bool {
	if s == "" {
		return false
	}
	if strings.HasPrefix(s, "(- ") {
		s = strings.TrimSuffix(s[3:], ")")
	}
	for _, c := range s {
		if c < '0' || c > '9' {
			return false
		}
	}
	return true
}

// distinctRefs: generator-level proof that two reference terms denote different allocations
func (vc *VC) canon(t string) string {
	for i := 0; i < 8; i++ {
		d, ok := vc.defOf[t]
		if !ok {
			return t
		}
		t = d
	}
	return t
}

func (vc *VC) distinctRefs(x, r string) bool {
	if x == r {
		return false
	}
	if len(vc.distinctFacts) > 0 {
		cx, cr := vc.canon(x), vc.canon(r)
		if vc.distinctFacts[cx+"|"+cr] || vc.distinctFacts[cr+"|"+cx] {
			return true
		}
	}
	if isIntLit(x) && isIntLit(r) {
		return true
	}
	bx, okx := vc.birth[x]
	br, okr := vc.birth[r]
	if isIntLit(x) {
		// nil or a global: distinct from every allocation
		return vc.isAlloc[r]
	}
	if isIntLit(r) {
		return vc.isAlloc[x]
	}
	if !okx || !okr {
		return false
	}
	if vc.isAlloc[x] && vc.isAlloc[r] {
		return true
	}
	if vc.isAlloc[r] && bx < br {
		return true // x existed before r was allocated
	}
	if vc.isAlloc[x] && br < bx {
		return true
	}
	return false
}

// resolve walks the derivation chain of memory m for a load of row ref.
// Returns either (memory symbol to select from, "") or ("", row term) or a direct cell value.
func (vc *VC) resolve(m, ref, slot string) (mem string, row string, val string) {
	for {
		l := vc.links[m]
		if l == nil {
			return m, "", ""
		}
		if l.frame {
			b, ok := vc.birth[ref]
			if !(ok && !vc.isAlloc[ref] && b < l.before || ok && vc.isAlloc[ref] && b <= l.before) && !isIntLit(ref) {
				return m, "", ""
			}
			for _, rt := range l.roots {
				if !vc.distinctRefs(ref, rt) {
					return m, "", ""
				}
			}
			m = l.parent
			continue
		}
		if len(l.alts) > 0 {
			all := true
			for _, a := range l.alts {
				if a == ref || !vc.distinctRefs(ref, a) {
					all = false
				}
			}
			if all {
				m = l.parent
				continue
			}
			return m, "", ""
		}
		if l.ref == ref {
			if l.row != "" {
				return "", l.row, ""
			}
			if l.slot == slot {
				return "", "", l.val
			}
			if isIntLit(l.slot) && isIntLit(slot) {
				m = l.parent
				continue
			}
			return m, "", ""
		}
		if vc.distinctRefs(ref, l.ref) {
			m = l.parent
			continue
		}
		return m, "", ""
	}
}

func (vc *VC) setRowAlts(st *State, s Sort, ref, row string, alts []string) {
	vc.setRow(st, s, ref, row)
	vc.links[st.mem[s]].alts = alts
	for _, a := range alts {
		vc.noteBirth(a)
	}
}

func (vc *VC) setRow(st *State, s Sort, ref, row string) {
	m := vc.memOf(st, s)
	nm := vc.freshRaw("M_"+string(s), memSort(s))
	vc.assert(sEq(nm, app("store", m, ref, row)))
	vc.noteBirth(ref)
	vc.links[nm] = &memLink{parent: m, ref: ref, row: row}
	st.mem[s] = nm
}


func newVC(eng *Engine, fn string) *VC {
	return &VC{defOf: map[string]string{}, distinctFacts: map[string]bool{}, fdefs: map[string]fdef{}, ringDone: map[string]bool{}, ringNF: map[string]string{}, isFresh: map[string]bool{}, memClock: map[string]int{}, nilChecked: map[string]bool{}, links: map[string]*memLink{}, birth: map[string]int{}, isAlloc: map[string]bool{}, eng: eng, declared: map[string]string{}, sorts: map[Sort]bool{}, unmodelled: map[string]bool{},
		assumptions: map[string]bool{}, axiomsUsed: map[string]bool{}, funcName: fn, counters: map[string]int{}}
}

func (vc *VC) emit(s string) { vc.lines = append(vc.lines, s) }

func (vc *VC) useSort(s Sort) {
	s = Sort(s.elem())
	if s == SInt || s == SBool || strings.HasPrefix(string(s), "(") {
		return
	}
	vc.sorts[s] = true
}

func (vc *VC) declConst(name string, s Sort) string {
	if _, ok := vc.declared[name]; ok {
		return name
	}
	vc.useSort(s)
	vc.declared[name] = string(s)
	vc.emit(fmt.Sprintf("(declare-const %s %s)", name, s))
	return name
}

func (vc *VC) declRaw(name, sortExpr string) string {
	if _, ok := vc.declared[name]; ok {
		return name
	}
	vc.declared[name] = sortExpr
	vc.emit(fmt.Sprintf("(declare-const %s %s)", name, sortExpr))
	return name
}

func (vc *VC) declFun(name string, args []Sort, ret Sort) {
	sig := fmt.Sprint(args, ret)
	if old, ok := vc.declared[name]; ok {
		if old != sig {
			panic(fmt.Sprintf("spec function %s used with two signatures: %s vs %s", name, old, sig))
		}
		return
	}
	vc.declared[name] = sig
	var as []string
	for _, a := range args {
		vc.useSort(a)
		as = append(as, string(a))
	}
	vc.useSort(ret)
	vc.decls = append(vc.decls, fmt.Sprintf("(declare-fun %s (%s) %s)", name, strings.Join(as, " "), ret))
}

func (vc *VC) fresh(prefix string, s Sort) string {
	vc.n++
	c := vc.declConst(fmt.Sprintf("%s!%d", mangle(prefix), vc.n), s)
	if s == SInt {
		// a value that exists now can only refer to objects allocated before now
		vc.birth[c] = vc.clock
	}
	if s == SF {
		vc.isFresh[c] = true
	}
	return c
}

func (vc *VC) freshRaw(prefix, sortExpr string) string {
	vc.n++
	name := vc.declRaw(fmt.Sprintf("%s!%d", mangle(prefix), vc.n), sortExpr)
	if strings.HasPrefix(prefix, "M_") {
		vc.memClock[name] = vc.clock
	}
	return name
}

func (vc *VC) assert(t string) {
	if t == "true" {
		return
	}
	vc.emit("(assert " + t + ")")
	if vc.sorts[SF] {
		body, guard := t, "true"
		if strings.HasPrefix(t, "(=> ") {
			if n := parseSx(t); len(n.kids) == 3 {
				guard, body = n.kids[1].String(), n.kids[2].String()
			}
		}
		vc.noteDefs(body, guard)
		vc.ringLemmas(t)
	}
}

// bind names a term (keeps the emitted text small)
func (vc *VC) bind(prefix string, s Sort, term string) string {
	if !strings.ContainsAny(term, " ") || strings.HasPrefix(term, "(at!") {
		return term
	}
	c := vc.fresh(prefix, s)
	vc.defOf[c] = term
	if s == SF {
		vc.fdefs[c] = fdef{term: term, guard: "true"}
	}
	vc.assert(sEq(c, term))
	if b, ok := vc.birth[term]; ok {
		vc.birth[c] = b
	}
	return c
}

func (vc *VC) bindBool(prefix string, term string) string {
	if !strings.ContainsAny(term, " ") {
		return term
	}
	c := vc.fresh(prefix, SBool)
	vc.assert(sEq(c, term))
	return c
}

func (vc *VC) oblig(kind, label, reach, goal string, pos token.Position, props []string, text string) *Obl {
	n := vc.counters[kind]
	vc.counters[kind] = n + 1
	name := fmt.Sprintf("%s#%s%d", vc.funcName, kind, n)
	if label != "" {
		name = fmt.Sprintf("%s#%s(%s)", vc.funcName, kind, label)
	}
	goal = vc.skolemize(goal)
	if vc.sorts[SF] {
		vc.ringLemmas(goal)
		vc.sweepRules()
	}
	o := &Obl{Name: name, Kind: kind, Goal: goal, Reach: reach, Pos: pos, LineIdx: len(vc.lines), Props: props, Text: text, Func: vc.funcName}
	vc.obls = append(vc.obls, o)
	// after the check the goal is assumed on this path
	vc.assert(sImp(reach, goal))
	if strings.HasPrefix(label, "unchanged") && vc.sorts[SF] {
		vc.noteAtomDefs(goal, reach)
	}
	return o
}

// elemSlot: slot of element idx of a slice/array starting at slot off with w slots per element.
// An uninterpreted function at!W!C(off, idx) = off + W*idx + C (with a defining axiom) rather than
// arithmetic, so that quantifier patterns over element accesses match syntactically.
func (vc *VC) elemSlot(off, idx string, w int) string {
	return vc.atTerm(w, 0, off, idx)
}

func (vc *VC) atTerm(w, c int, off, idx string) string {
	name := fmt.Sprintf("at!%d!%d", w, c)
	if _, ok := vc.declared[name]; !ok {
		vc.declared[name] = "at"
		vc.decls = append(vc.decls, fmt.Sprintf("(declare-fun %s (Int Int) Int)", name))
		vc.decls = append(vc.decls, fmt.Sprintf("(assert (forall ((o Int) (i Int)) (! (= (%s o i) (+ o (* %d i) %d)) :pattern ((%s o i)))))", name, w, c, name))
	}
	return app(name, off, idx)
}

var atRe = regexp.MustCompile(`^\(at!(\d+)!(\d+) (.*)\)$`)
var plusRe = regexp.MustCompile(`^\(\+ (.*) (\d+)\)$`)

// addSlot adds a constant to a slot term, keeping at-terms and constant offsets canonical
func (vc *VC) addSlot(slot string, k int) string {
	if k == 0 {
		return slot
	}
	if isIntLit(slot) && !strings.HasPrefix(slot, "(") {
		n, _ := strconv.Atoi(slot)
		return strconv.Itoa(n + k)
	}
	if m := atRe.FindStringSubmatch(slot); m != nil {
		w, _ := strconv.Atoi(m[1])
		c, _ := strconv.Atoi(m[2])
		rest := m[3]
		// rest = "off idx": split at top level
		if i := splitTopSpace(rest); i > 0 {
			return vc.atTerm(w, c+k, rest[:i], rest[i+1:])
		}
	}
	if m := plusRe.FindStringSubmatch(slot); m != nil && balanced(m[1]) {
		n, _ := strconv.Atoi(m[2])
		return app("+", m[1], strconv.Itoa(n+k))
	}
	return app("+", slot, strconv.Itoa(k))
}

// splitTopSpace returns the index of the space separating the two top-level s-expressions of s
func splitTopSpace(s string) int {
	d := 0
	for i, c := range s {
		switch c {
		case '(':
			d++
		case ')':
			d--
		case ' ':
			if d == 0 {
				return i
			}
		}
	}
	return -1
}

func (vc *VC) header() string {
	var b strings.Builder
	b.WriteString("(set-option :produce-models true)\n(set-logic ALL)\n")
	var ss []string
	for s := range vc.sorts {
		ss = append(ss, string(s))
	}
	sort.Strings(ss)
	for _, s := range ss {
		b.WriteString(fmt.Sprintf("(declare-sort %s 0)\n", s))
		if Sort(s) == SF {
			b.WriteString(fieldTheory)
		} else {
			b.WriteString(fmt.Sprintf("(declare-const zero_%s %s)\n", s, s))
		}
	}
	for _, d := range vc.decls {
		b.WriteString(d)
		b.WriteByte('\n')
	}
	for _, a := range vc.axioms {
		b.WriteString(a)
		b.WriteByte('\n')
	}
	return b.String()
}

func (vc *VC) query(o *Obl) string {
	var b strings.Builder
	b.WriteString(vc.header())
	for _, l := range vc.lines[:o.LineIdx] {
		b.WriteString(l)
		b.WriteByte('\n')
	}
	b.WriteString("(assert " + o.Reach + ")\n")
	if !o.Cover {
		b.WriteString("(assert " + sNot(o.Goal) + ")\n")
	}
	b.WriteString("(check-sat)\n")
	return b.String()
}

// Theory of the abstract field sort F: only unit / zero / negation / inverse / no-zero-divisor facts are
// left to the solver; associativity, commutativity and distributivity are applied by the generator
// (ring.go: normal-form lemmas), because quantified AC axioms make the solvers slow and unstable.
const fieldTheory = `(declare-const f0 F)
(declare-const f1 F)
(declare-fun fadd (F F) F)
(declare-fun fmul (F F) F)
(declare-fun fneg (F) F)
(declare-fun finv (F) F)
(declare-fun ofInt (Int) F)
(define-fun fsub ((x F) (y F)) F (fadd x (fneg y)))
(assert (distinct f0 f1))
(assert (forall ((x F)) (! (= (fadd x f0) x) :pattern ((fadd x f0)))))
(assert (forall ((x F)) (! (= (fadd f0 x) x) :pattern ((fadd f0 x)))))
(assert (forall ((x F)) (! (= (fmul x f1) x) :pattern ((fmul x f1)))))
(assert (forall ((x F)) (! (= (fmul f1 x) x) :pattern ((fmul f1 x)))))
(assert (forall ((x F)) (! (= (fmul x f0) f0) :pattern ((fmul x f0)))))
(assert (forall ((x F)) (! (= (fmul f0 x) f0) :pattern ((fmul f0 x)))))
(assert (forall ((x F)) (! (= (fadd x (fneg x)) f0) :pattern ((fadd x (fneg x))))))
(assert (forall ((x F)) (! (= (fadd (fneg x) x) f0) :pattern ((fadd (fneg x) x)))))
(assert (forall ((x F)) (! (= (fneg (fneg x)) x) :pattern ((fneg (fneg x))))))
(assert (forall ((x F)) (! (= (fmul (fneg f1) x) (fneg x)) :pattern ((fmul (fneg f1) x)))))
(assert (forall ((x F)) (! (= (fmul x (fneg f1)) (fneg x)) :pattern ((fmul x (fneg f1))))))
(assert (forall ((x F) (y F)) (! (= (fmul x (fneg y)) (fneg (fmul x y))) :pattern ((fmul x (fneg y))))))
(assert (forall ((x F) (y F)) (! (= (fmul (fneg x) y) (fneg (fmul x y))) :pattern ((fmul (fneg x) y)))))
(assert (forall ((x F) (y F)) (! (= (= (fadd x (fneg y)) f0) (= x y)) :pattern ((fadd x (fneg y))))))
(assert (= (fneg f0) f0))
(assert (= (ofInt 0) f0))
(assert (= (ofInt 1) f1))
(assert (forall ((x F)) (! (=> (distinct x f0) (and (= (fmul x (finv x)) f1) (= (fmul (finv x) x) f1))) :pattern ((finv x)))))
(assert (= (finv f0) f0))
(assert (forall ((x F) (y F)) (! (=> (= (fmul x y) f0) (or (= x f0) (= y f0))) :pattern ((fmul x y)))))
`

// ---------------------------------------------------------------------------
// symbolic heap state

type havocBase struct {
	id        string
	prev      *State
	protected []string // rows (refs) that keep their content across the havoc
	syms      map[Sort]string
}

type State struct {
	mem  map[Sort]string
	brk  string
	base *havocBase
}

func (s State) clone() State {
	m := make(map[Sort]string, len(s.mem))
	for k, v := range s.mem {
		m[k] = v
	}
	return State{mem: m, brk: s.brk, base: s.base}
}

func (vc *VC) memOf(st *State, s Sort) string {
	if m, ok := st.mem[s]; ok {
		return m
	}
	vc.useSort(s)
	if st.base == nil {
		return vc.declRaw("M_"+mangle(string(s))+"_0", memSort(s))
	}
	if m, ok := st.base.syms[s]; ok {
		return m
	}
	m := vc.declRaw("M_"+mangle(string(s))+"_"+st.base.id, memSort(s))
	st.base.syms[s] = m
	if len(st.base.protected) > 0 {
		pm := vc.memOf(st.base.prev, s)
		for _, r := range st.base.protected {
			vc.assert(sEq(app("select", m, r), app("select", pm, r)))
		}
	}
	if vc.monotoneSort(s) && st.base.prev != nil {
		vc.assertMonotone(m, vc.memOf(st.base.prev, s))
	}
	return m
}

// monotoneSort: s is the memory of a ghost declared 'monotone' (a counter that effect clauses only increase)
func (vc *VC) monotoneSort(s Sort) bool {
	i := strings.Index(string(s), "#")
	return i >= 0 && vc.eng.cs.Monotone[string(s)[i+1:]]
}

func (vc *VC) assertMonotone(m, pm string) {
	vc.assert(fmt.Sprintf("(forall ((r Int) (i Int)) (! (>= (select (select %s r) i) (select (select %s r) i)) :pattern ((select (select %s r) i))))", m, pm, m))
	vc.assumptions["ghost counters declared monotone are only increased by the effect clauses that mention them (an unknown callee or loop body leaves them at least as large)"] = true
}

func (vc *VC) loadComp(st *State, s Sort, ref, slot string) string {
	vc.noteBirth(ref)
	m, row, val := vc.resolve(vc.memOf(st, s), ref, slot)
	if val != "" {
		return val
	}
	if row != "" {
		return app("select", row, slot)
	}
	t := app("select", app("select", m, ref), slot)
	if s == SInt {
		// a reference read from memory state m denotes an object that existed when m was current
		if _, ok := vc.birth[t]; !ok {
			vc.birth[t] = vc.memClock[m] // 0 for the entry memory
		}
	}
	return t
}

func (vc *VC) storeComp(st *State, s Sort, ref, slot, val string) {
	m := vc.memOf(st, s)
	nm := vc.freshRaw("M_"+string(s), memSort(s))
	vc.assert(sEq(nm, app("store", m, ref, app("store", app("select", m, ref), slot, val))))
	vc.noteBirth(ref)
	vc.links[nm] = &memLink{parent: m, ref: ref, slot: slot, val: val}
	st.mem[s] = nm
}

func (vc *VC) zeroRow(st *State, s Sort, ref string) {
	vc.setRow(st, s, ref, "((as const (Array Int "+s.elem()+")) "+zeroOf(Sort(s.elem()))+")")
}

// rowOf returns a term for the whole row of ref in the current memory
func (vc *VC) rowOf(st *State, s Sort, ref string) string {
	vc.noteBirth(ref)
	m, row, _ := vc.resolve(vc.memOf(st, s), ref, "?")
	if row != "" {
		return row
	}
	return app("select", m, ref)
}

// havocAll models a call with no contract: every memory is replaced by an
// unknown one, except the rows of allocations local to the function that never
// escaped.
func (vc *VC) havocAll(st *State, protected []string) {
	vc.n++
	prev := st.clone()
	nb := &havocBase{id: fmt.Sprintf("h%d", vc.n), prev: &prev, protected: append([]string{}, protected...), syms: map[Sort]string{}}
	st.mem = map[Sort]string{}
	st.base = nb
}

func (vc *VC) allocRef(st *State, what string) string {
	r := vc.fresh("ref_"+what, SInt)
	vc.noteBirth(r)
	vc.clock++
	vc.birth[r] = vc.clock
	vc.isAlloc[r] = true
	vc.assert(sEq(r, st.brk))
	nb := vc.fresh("brk", SInt)
	vc.assert(sEq(nb, app("+", st.brk, "1")))
	st.brk = nb
	return r
}

// ---------------------------------------------------------------------------
// row kinds: hasBig(ref) -- the allocation `ref` contains a math/big.Int object. A non-nil *big.Int points
// into such an allocation, an allocation of a type without big.Int components is not one (Go type safety).
// This separates the big.Int constants a frontend.Variable may hold from the arrays of Variables a gadget
// writes, for element values the generator cannot resolve individually (quantified indices).

func containsBig(l *Layouter, t types.Type, depth int) bool {
	t = types.Unalias(t)
	if n, ok := t.(*types.Named); ok {
		if typeFullName(n) == "math/big.Int" {
			return true
		}
		if _, op := l.opaque(n); op {
			return false
		}
	}
	if depth > 6 {
		return true
	}
	switch tt := t.Underlying().(type) {
	case *types.Struct:
		for i := 0; i < tt.NumFields(); i++ {
			if containsBig(l, tt.Field(i).Type(), depth+1) {
				return true
			}
		}
	case *types.Array:
		return containsBig(l, tt.Elem(), depth+1)
	}
	return false
}

func isBigInt(t types.Type) bool {
	n, ok := types.Unalias(t).(*types.Named)
	return ok && typeFullName(n) == "math/big.Int"
}

func (vc *VC) hasBigDecl() {
	vc.declFun("hasBig", []Sort{SInt}, SBool)
}

// noteAllocType records the row kind of a fresh allocation of element type t
func (vc *VC) noteAllocType(l *Layouter, ref string, t types.Type, reach string) {
	// guarded by the path: the same address is a different object on another path
	vc.hasBigDecl()
	if containsBig(l, t, 0) {
		if isBigInt(t) {
			vc.assert(sImp(reach, app("hasBig", ref)))
		}
		return
	}
	vc.assert(sImp(reach, sNot(app("hasBig", ref))))
}

// ---------------------------------------------------------------------------
// type facts

func (vc *VC) typeFacts(l *Layouter, t types.Type, c []string, brk string) []string {
	var out []string
	t = types.Unalias(t)
	if n, ok := t.(*types.Named); ok {
		if s, ok := l.opaque(n); ok {
			_ = s
			return nil
		}
	}
	if _, isTP := t.(*types.TypeParam); isTP {
		return nil
	}
	switch tt := t.Underlying().(type) {
	case *types.Basic:
		if lo, hi, ok := intRange(tt); ok {
			out = append(out, app("<=", lo, c[0]), app("<", c[0], hi))
		}
		if isString(tt) {
			out = append(out, app(">=", app("strlen", c[0]), "0"))
			vc.declFun("strlen", []Sort{SInt}, SInt)
		}
	case *types.Pointer:
		out = append(out, app("<", c[0], brk), app(">=", c[1], "0"), sImp(sEq(c[0], "0"), sEq(c[1], "0")))
		if isBigInt(tt.Elem()) {
			vc.hasBigDecl()
			out = append(out, sOr(sEq(c[0], "0"), app("hasBig", c[0])))
		} else if !containsBig(l, tt.Elem(), 0) {
			if _, isArr := tt.Elem().Underlying().(*types.Array); isArr || true {
				// a pointer to a T without big.Int components may still be an interior pointer into a larger
				// object that has some: nothing is known, except for slices of such T (whole backing arrays)
			}
		}
	case *types.Slice:
		if !containsBig(l, tt.Elem(), 0) {
			if _, isIface := tt.Elem().Underlying().(*types.Interface); isIface {
				// backing arrays of interface values are allocated as such (no Go object has an interior
				// array of interfaces next to a big.Int except structs/arrays embedding one: excluded below)
				vc.hasBigDecl()
				out = append(out, sNot(app("hasBig", c[0])))
				vc.assumptions["slices of interface values do not point into allocations that also hold a math/big.Int (no such struct in scope)"] = true
			}
		}
		out = append(out, app("<", c[0], brk), app(">=", c[1], "0"), app(">=", c[2], "0"), app(">=", c[3], c[2]), app("<", c[3], "9223372036854775808"),
			sImp(sEq(c[0], "0"), sAnd(sEq(c[2], "0"), sEq(c[3], "0"), sEq(c[1], "0"))))
		// a slice never points into the cell of a local variable that holds no array (row kind isCell)
		vc.declFun("isCell", []Sort{SInt}, SBool)
		out = append(out, sNot(app("isCell", c[0])))
	case *types.Interface:
		out = append(out, app(">=", c[0], "0"), sImp(sEq(c[0], "0"), sEq(c[1], "0")))
		if vc.eng != nil && vc.eng.bigPtr != nil && tt.NumMethods() == 0 {
			// an `any` (frontend.Variable) holding a *big.Int constant: the pointer inside a live value
			// refers to an object that exists now
			tag := vc.eng.tagOf(vc.eng.bigPtr)
			un := vc.eng.unbox(vc, vc.eng.bigPtr, c[1])
			out = append(out, sImp(sEq(c[0], sInt(int64(tag))), app("<", un[0], brk)))
		}
	case *types.Map, *types.Chan, *types.Signature:
		out = append(out, app("<", c[0], brk))
	case *types.Struct:
		off := 0
		for i := 0; i < tt.NumFields(); i++ {
			n := l.sizeOf(tt.Field(i).Type())
			if off+n <= len(c) {
				out = append(out, vc.typeFacts(l, tt.Field(i).Type(), c[off:off+n], brk)...)
			}
			off += n
		}
	case *types.Tuple:
		off := 0
		for i := 0; i < tt.Len(); i++ {
			n := l.sizeOf(tt.At(i).Type())
			if off+n <= len(c) {
				out = append(out, vc.typeFacts(l, tt.At(i).Type(), c[off:off+n], brk)...)
			}
			off += n
		}
	}
	return out
}

// skolemize: a goal  A ==> forall x :: B(x)  (or  forall x :: B(x)) is proved for fresh constants.
func (vc *VC) skolemize(goal string) string {
	if !strings.Contains(goal, "(forall ") {
		return goal
	}
	root := parseSx(goal)
	var rec func(n *sx) *sx
	rec = func(n *sx) *sx {
		switch n.head() {
		case "=>":
			if len(n.kids) == 3 {
				return &sx{kids: []*sx{n.kids[0], n.kids[1], rec(n.kids[2])}}
			}
		case "and":
			out := &sx{kids: []*sx{n.kids[0]}}
			for _, k := range n.kids[1:] {
				out.kids = append(out.kids, rec(k))
			}
			return out
		case "forall":
			if len(n.kids) == 3 {
				body := n.kids[2].String()
				if n.kids[2].head() == "!" {
					body = n.kids[2].kids[1].String()
				}
				for _, b := range n.kids[1].kids {
					if len(b.kids) == 2 && b.kids[0].kids == nil && b.kids[1].kids == nil {
						c := vc.fresh("sk_"+b.kids[0].atom, Sort(b.kids[1].atom))
						body = replaceSymbol(body, b.kids[0].atom, c)
					} else {
						return n
					}
				}
				return rec(parseSx(body))
			}
		}
		return n
	}
	return rec(root).String()
}

func replaceSymbol(s, from, to string) string {
	n := parseSx(s)
	var rec func(n *sx)
	rec = func(n *sx) {
		if n.kids == nil {
			if n.atom == from {
				n.atom = to
			}
			return
		}
		for _, k := range n.kids {
			rec(k)
		}
	}
	rec(n)
	return n.String()
}

package main

// Evaluation of contract expressions to SMT terms in a symbolic state.

import (
	"fmt"
	"go/constant"
	"go/token"
	"go/types"
	"strconv"
	"strings"

	"golang.org/x/tools/go/ssa"
)

type tval struct {
	T types.Type
	C []string
	// place: address of the value when it is addressable (ref, slot)
	Addr []string
	// St: the state the value was read in when it differs from the current one (old(.)); deep
	// spec-function parameters read the referenced rows in that state
	St *State
}

type Env struct {
	fr     *Frame
	st     *State
	old    *State
	vars   map[string]tval
	phi    map[ssa.Value][]string
	loop   *loopInfo
	fn     *ssa.Function
	pkg    *types.Package
	result []tval
	resNames []string
	depth  int
	at           *ssa.BasicBlock // evaluation point (a return): a local name means the definition reaching it
	inOld        bool // inside old(.): a parameter name means its entry value, not the loop's current value
	paramsOnly   bool // names other than parameters do not resolve (lemma instances tried at entry)
	noteDistinct bool // evaluating an assumed precondition: alloc(a) != alloc(b) facts may be recorded
}

func (fr *Frame) newEnv(st *State) *Env {
	e := &Env{fr: fr, st: st, old: &fr.entry, vars: map[string]tval{}, fn: fr.fn}
	if fr.fn != nil && fr.fn.Pkg != nil {
		e.pkg = fr.fn.Pkg.Pkg
	} else if fr.fn != nil && fr.fn.Parent() != nil {
		p := fr.fn
		for p.Parent() != nil {
			p = p.Parent()
		}
		if p.Pkg != nil {
			e.pkg = p.Pkg.Pkg
		}
	}
	return e
}

func (e *Env) sub() *Env {
	n := *e
	n.vars = map[string]tval{}
	for k, v := range e.vars {
		n.vars[k] = v
	}
	n.depth = e.depth + 1
	return &n
}

func (e *Env) vc() *VC       { return e.fr.vc }
func (e *Env) pkgPath() string {
	if e.pkg != nil {
		return e.pkg.Path()
	}
	return ""
}
func (e *Env) l() *Layouter { return e.fr.eng.lay }

var intT = types.Typ[types.Int]
var boolT = types.Typ[types.Bool]

func (e *Env) evalBool(x Expr) (string, error) {
	v, err := e.eval(x)
	if err != nil {
		return "", err
	}
	if len(v.C) != 1 {
		return "", fmt.Errorf("boolean expected")
	}
	return v.C[0], nil
}

func (e *Env) sortsOf(v tval) []Sort {
	if v.T == nil {
		out := make([]Sort, len(v.C))
		for i := range out {
			out[i] = SInt
		}
		return out
	}
	return e.l().layout(v.T)
}

func (e *Env) isF(v tval) bool {
	if v.T == nil {
		return false
	}
	l := e.l().layout(v.T)
	return len(l) == 1 && l[0] == SF
}

func (e *Env) load(addr []string, t types.Type, st *State) tval {
	return tval{T: t, C: e.fr.load(st, addr, t), Addr: addr}
}

func deref(t types.Type) (types.Type, bool) {
	if p, ok := types.Unalias(t).Underlying().(*types.Pointer); ok {
		return p.Elem(), true
	}
	return nil, false
}

func (e *Env) eval(x Expr) (tval, error) {
	switch x := x.(type) {
	case EInt:
		n, err := strconv.ParseInt(x.V, 0, 64)
		if err != nil {
			return tval{T: intT, C: []string{x.V}}, nil
		}
		return tval{T: intT, C: []string{sInt(n)}}, nil
	case EBool:
		if x.V {
			return tval{T: boolT, C: []string{"true"}}, nil
		}
		return tval{T: boolT, C: []string{"false"}}, nil
	case EStr:
		return tval{T: types.Typ[types.String], C: []string{e.fr.eng.strID(e.vc(), x.V)}}, nil
	case EIdent:
		return e.evalIdent(x.Name)
	case ESel:
		return e.evalSel(x)
	case EIndex:
		return e.evalIndex(x)
	case ESlice:
		return e.evalSlice(x)
	case ECall:
		return e.evalCall(x)
	case EUn:
		return e.evalUn(x)
	case EBin:
		return e.evalBin(x)
	case ECond:
		c, err := e.evalBool(x.C)
		if err != nil {
			return tval{}, err
		}
		a, err := e.eval(x.A)
		if err != nil {
			return tval{}, err
		}
		b, err := e.eval(x.B)
		if err != nil {
			return tval{}, err
		}
		if len(a.C) != len(b.C) {
			return tval{}, fmt.Errorf("conditional branches differ in shape")
		}
		out := make([]string, len(a.C))
		for i := range a.C {
			out[i] = sIte(c, a.C[i], b.C[i])
		}
		return tval{T: a.T, C: out}, nil
	case EQuant:
		ne := e.sub()
		var binders []string
		var guards []string
		for _, v := range x.Vars {
			t := e.l().specType(v[1])
			lay := e.l().layout(t)
			if len(lay) != 1 {
				return tval{}, fmt.Errorf("quantified variable %s must be scalar", v[0])
			}
			e.vc().useSort(lay[0])
			nm := "q_" + v[0]
			ne.vars[v[0]] = tval{T: t, C: []string{nm}}
			binders = append(binders, "("+nm+" "+string(lay[0])+")")
			_ = guards
		}
		b, err := ne.evalBool(x.Body)
		if err != nil {
			return tval{}, err
		}
		q := "forall"
		if !x.Forall {
			q = "exists"
		}
		if len(x.Pats) > 0 {
			var ps []string
			for _, pe := range x.Pats {
				pv, err := ne.eval(pe)
				if err != nil {
					return tval{}, err
				}
				ps = append(ps, pv.C[0])
			}
			b = "(! " + b + " :pattern (" + strings.Join(ps, " ") + "))"
		}
		return tval{T: boolT, C: []string{"(" + q + " (" + strings.Join(binders, " ") + ") " + b + ")"}}, nil
	}
	return tval{}, fmt.Errorf("unsupported expression %T", x)
}

func (e *Env) evalIdent(name string) (tval, error) {
	if v, ok := e.vars[name]; ok {
		return v, nil
	}
	if name == "nil" {
		return tval{T: types.Typ[types.UntypedNil], C: nil}, nil
	}
	if name == "result" && len(e.result) == 1 {
		return e.result[0], nil
	}
	if name == "result" && len(e.result) > 1 {
		var c []string
		var vars []*types.Var
		for _, r := range e.result {
			c = append(c, r.C...)
			vars = append(vars, types.NewVar(0, nil, "", r.T))
		}
		return tval{T: types.NewTuple(vars...), C: c}, nil
	}
	for i, n := range e.resNames {
		if n == name && i < len(e.result) {
			return e.result[i], nil
		}
	}
	if v, ok := e.lookupLocal(name); ok {
		return v, nil
	}
	if name == "err" && len(e.result) > 0 {
		last := e.result[len(e.result)-1]
		if last.T != nil && types.TypeString(last.T, nil) == "error" {
			return last, nil
		}
	}
	if sf, ok := e.fr.eng.cs.lookupSpec(e.pkgPath(), name); ok && len(sf.Params) == 0 {
		return e.applySpec(sf, nil)
	}
	// package-level objects
	if e.pkg != nil {
		if obj := e.pkg.Scope().Lookup(name); obj != nil {
			return e.evalObject(obj)
		}
	}
	switch name {
	case "f0", "f1":
		e.vc().useSort(SF)
		return tval{T: e.l().specType("F"), C: []string{name}}, nil
	}
	return tval{}, fmt.Errorf("unresolved name %q", name)
}

func (e *Env) evalObject(obj types.Object) (tval, error) {
	switch o := obj.(type) {
	case *types.Const:
		if o.Val().Kind() == constant.Int {
			s := o.Val().ExactString()
			if strings.HasPrefix(s, "-") {
				s = "(- " + s[1:] + ")"
			}
			return tval{T: intT, C: []string{s}}, nil
		}
		if o.Val().Kind() == constant.String {
			return tval{T: types.Typ[types.String], C: []string{e.fr.eng.strID(e.vc(), constant.StringVal(o.Val()))}}, nil
		}
		if o.Val().Kind() == constant.Bool {
			return tval{T: boolT, C: []string{fmt.Sprint(constant.BoolVal(o.Val()))}}, nil
		}
	case *types.Var:
		// global variable: load its cell
		if sp := e.fr.eng.prog.Package(o.Pkg()); sp != nil {
			if g, ok := sp.Members[o.Name()].(*ssa.Global); ok {
				addr := []string{e.fr.eng.globalRef(e.vc(), g), "0"}
				return e.load(addr, o.Type(), e.st), nil
			}
		}
	}
	return tval{}, fmt.Errorf("unsupported package-level object %s", obj.Name())
}

// lookupLocal resolves a source-level local variable name in the function being verified.
func (e *Env) lookupLocal(name string) (tval, bool) {
	fn := e.fn
	if fn == nil {
		return tval{}, false
	}
	fr := e.fr
	if e.inOld {
		for i, p := range fn.Params {
			if p.Name() == name && i < len(fr.params) {
				return tval{T: p.Type(), C: fr.params[i]}, true
			}
		}
	}
	if e.loop != nil {
		for _, in := range e.loop.header.Instrs {
			phi, ok := in.(*ssa.Phi)
			if !ok {
				break
			}
			if phi.Comment == name {
				if c, ok := e.phi[phi]; ok {
					return tval{T: phi.Type(), C: c}, true
				}
			}
		}
		// a variable (possibly a parameter) re-assigned on several paths before the loop: the join's phi
		var bestPhi *ssa.Phi
		for _, b := range fn.Blocks {
			if b == e.loop.header || !b.Dominates(e.loop.header) {
				continue
			}
			for _, in := range b.Instrs {
				phi, ok := in.(*ssa.Phi)
				if !ok {
					break
				}
				if phi.Comment == name {
					if _, ok := fr.regs[phi]; ok && (bestPhi == nil || b.Index > bestPhi.Block().Index) {
						bestPhi = phi
					}
				}
			}
		}
		if bestPhi != nil {
			return tval{T: bestPhi.Type(), C: fr.regs[bestPhi]}, true
		}
	}
	for i, p := range fn.Params {
		if p.Name() == name {
			if i < len(fr.params) {
				return tval{T: p.Type(), C: fr.params[i]}, true
			}
			if c, ok := fr.regs[p]; ok {
				return tval{T: p.Type(), C: c}, true
			}
		}
	}
	for i, fv := range fn.FreeVars {
		if fv.Name() == name && i < len(fr.free) {
			if et, ok := deref(fv.Type()); ok {
				return e.load(fr.free[i], et, e.st), true
			}
			return tval{T: fv.Type(), C: fr.free[i]}, true
		}
	}
	if e.paramsOnly {
		return tval{}, false
	}
	// local variable cells
	var otherPath *ssa.Alloc
	for _, b := range fn.Blocks {
		for _, in := range b.Instrs {
			if a, ok := in.(*ssa.Alloc); ok && a.Comment == name {
				if e.loop == nil && e.at != nil && !(b == e.at || b.Dominates(e.at)) {
					// a variable of this name on another path: used only if nothing reaches this point
					if _, ok := fr.regs[a]; ok && otherPath == nil {
						otherPath = a
					}
					continue
				}
				if c, ok := fr.regs[a]; ok {
					et, _ := deref(a.Type())
					return e.load(c, et, e.st), true
				}
			}
		}
	}
	// at a return: the definition of the variable that reaches it (the latest one, in dominance order, among the
	// phis carrying the name and the values debug information binds to it)
	if e.loop == nil && e.at != nil {
		depth := func(b *ssa.BasicBlock) int {
			n := 0
			for x := b; x != nil; x = x.Idom() {
				n++
			}
			return n
		}
		var bestV ssa.Value
		bestKey := -1
		consider := func(v ssa.Value, b *ssa.BasicBlock, idx int) {
			if b == nil || !(b == e.at || b.Dominates(e.at)) {
				return
			}
			if _, ok := fr.regs[v]; !ok {
				if _, isC := v.(*ssa.Const); !isC {
					return
				}
			}
			if key := depth(b)*100000 + idx; key > bestKey {
				bestKey, bestV = key, v
			}
		}
		for _, b := range fn.Blocks {
			for idx, in := range b.Instrs {
				switch x := in.(type) {
				case *ssa.Phi:
					if x.Comment == name {
						consider(x, b, idx)
					}
				case *ssa.DebugRef:
					if !x.IsAddr && identName(x) == name {
						consider(x.X, b, idx)
					}
				}
			}
		}
		if bestV != nil {
			return tval{T: bestV.Type(), C: fr.val(bestV)}, true
		}
	}
	if otherPath != nil {
		et, _ := deref(otherPath.Type())
		return e.load(fr.regs[otherPath], et, e.st), true
	}
	// SSA registers named through debug info
	var best ssa.Value
	for _, b := range fn.Blocks {
		for _, in := range b.Instrs {
			dr, ok := in.(*ssa.DebugRef)
			if !ok || dr.IsAddr {
				continue
			}
			id := identName(dr)
			if id != name {
				continue
			}
			if _, ok := fr.regs[dr.X]; !ok {
				if _, isC := dr.X.(*ssa.Const); !isC {
					in2, isIn := dr.X.(ssa.Instruction)
					if !(e.loop != nil && isIn && in2.Block() == e.loop.header) {
						continue
					}
				}
			}
			if e.loop != nil {
				if in2, ok := dr.X.(ssa.Instruction); ok && in2.Block() != nil && !in2.Block().Dominates(e.loop.header) {
					continue // another variable of the same name in an unrelated scope
				}
				if _, isInstr := dr.X.(ssa.Instruction); !isInstr {
					// constants / parameters: the debug reference itself must be in scope of the loop
					if dr.Block() == e.loop.header || !dr.Block().Dominates(e.loop.header) {
						continue
					}
				}
				if in2, ok := dr.X.(ssa.Instruction); ok && e.loop.body[in2.Block()] {
					if in2.Block() != e.loop.header {
						continue
					}
					if _, ok := e.evalPure(dr.X, 0); !ok {
						continue
					}
				}
			}
			best = dr.X
		}
	}
	if best != nil {
		if c, ok := e.evalPure(best, 0); ok {
			return tval{T: best.Type(), C: c}, true
		}
		return tval{T: best.Type(), C: fr.val(best)}, true
	}
	return tval{}, false
}

// evalPure re-evaluates a value of the loop header block as a function of the
// header's phi nodes (so that `i` of `for i := range s`, which go/ssa computes as
// phi+1 in the header, can be used in invariants on entry and back edges).
func (e *Env) evalPure(v ssa.Value, depth int) ([]string, bool) {
	if depth > 4 {
		return nil, false
	}
	if e.loop == nil {
		return e.fr.val(v), true
	}
	switch x := v.(type) {
	case *ssa.Phi:
		if x.Block() == e.loop.header {
			c, ok := e.phi[x]
			return c, ok
		}
	case *ssa.Const:
		return e.fr.val(v), true
	case *ssa.BinOp:
		if x.Block() == e.loop.header && isInteger(x.Type()) && (x.Op == token.ADD || x.Op == token.SUB) {
			a, ok1 := e.evalPure(x.X, depth+1)
			b, ok2 := e.evalPure(x.Y, depth+1)
			if ok1 && ok2 {
				if x.Op == token.ADD {
					return []string{sAdd(a[0], b[0])}, true
				}
				return []string{sSub(a[0], b[0])}, true
			}
			return nil, false
		}
	}
	if in, ok := v.(ssa.Instruction); ok && e.loop.body[in.Block()] {
		return nil, false
	}
	return e.fr.val(v), true
}

func identName(dr *ssa.DebugRef) string {
	type named interface{ String() string }
	if id, ok := dr.Expr.(interface{ String() string }); ok {
		_ = id
	}
	if o := dr.Object(); o != nil {
		return o.Name()
	}
	return ""
}

func (e *Env) evalSel(x ESel) (tval, error) {
	// package-qualified name?
	if id, ok := x.X.(EIdent); ok && e.pkg != nil {
		if _, isVar := e.vars[id.Name]; !isVar {
			if _, isLocal := e.lookupLocal(id.Name); !isLocal {
				if path, ok := e.fr.eng.aliases[e.pkg.Path()][id.Name]; ok {
					for _, imp := range e.pkg.Imports() {
						if imp.Path() == path {
							if obj := imp.Scope().Lookup(x.Name); obj != nil {
								return e.evalObject(obj)
							}
						}
					}
				}
				for _, imp := range e.pkg.Imports() {
					if imp.Name() == id.Name {
						if obj := imp.Scope().Lookup(x.Name); obj != nil {
							return e.evalObject(obj)
						}
					}
				}
				// import aliases are not visible in types.Package; try by last path element
				for _, imp := range e.pkg.Imports() {
					if strings.HasSuffix(imp.Path(), "/"+id.Name) || imp.Path() == id.Name {
						if obj := imp.Scope().Lookup(x.Name); obj != nil {
							return e.evalObject(obj)
						}
					}
				}
			}
		}
	}
	v, err := e.eval(x.X)
	if err != nil {
		return tval{}, err
	}
	if v.T == nil {
		return tval{}, fmt.Errorf("selector %s on untyped value", x.Name)
	}
	// tuple projection result.0
	if tup, ok := v.T.(*types.Tuple); ok {
		k, err := strconv.Atoi(x.Name)
		if err != nil || k >= tup.Len() {
			return tval{}, fmt.Errorf("bad tuple selector %s", x.Name)
		}
		off := 0
		for i := 0; i < k; i++ {
			off += e.l().sizeOf(tup.At(i).Type())
		}
		n := e.l().sizeOf(tup.At(k).Type())
		return tval{T: tup.At(k).Type(), C: v.C[off : off+n]}, nil
	}
	t := v.T
	var addr []string
	if et, ok := deref(t); ok {
		addr = v.C
		t = et
	} else {
		addr = v.Addr
	}
	if n, ok := types.Unalias(t).(*types.Named); ok {
		if _, op := e.l().opaque(n); op {
			return tval{}, fmt.Errorf("field %s of opaque type %s", x.Name, n)
		}
	}
	st, ok := t.Underlying().(*types.Struct)
	if !ok {
		return tval{}, fmt.Errorf("selector %s on non-struct %s", x.Name, t)
	}
	// find field (including promoted through embedded structs and embedded pointers)
	path, ft := findField(st, x.Name, 0)
	if path == nil {
		return tval{}, fmt.Errorf("no field %s in %s", x.Name, t)
	}
	cur := st
	off := 0
	vals := v.C
	for i, idx := range path {
		foff := e.l().fieldOffset(cur, idx)
		if i < len(path)-1 {
			nt := cur.Field(idx).Type()
			if pt, isPtr := deref(nt); isPtr {
				// embedded pointer: load it and continue in the pointee
				var pv []string
				if addr != nil {
					pv = e.fr.load(e.st, []string{addr[0], e.vc().addSlot(addr[1], off+foff)}, nt)
				} else {
					pv = vals[off+foff : off+foff+2]
				}
				addr = pv
				off = 0
				cur = pt.Underlying().(*types.Struct)
				continue
			}
			cur = nt.Underlying().(*types.Struct)
		}
		off += foff
	}
	if addr != nil {
		fa := []string{addr[0], e.vc().addSlot(addr[1], off)}
		return e.load(fa, ft, e.st), nil
	}
	n := e.l().sizeOf(ft)
	return tval{T: ft, C: vals[off : off+n]}, nil
}

func findField(st *types.Struct, name string, depth int) ([]int, types.Type) {
	for i := 0; i < st.NumFields(); i++ {
		if st.Field(i).Name() == name {
			return []int{i}, st.Field(i).Type()
		}
	}
	if depth > 3 {
		return nil, nil
	}
	for i := 0; i < st.NumFields(); i++ {
		f := st.Field(i)
		if !f.Embedded() {
			continue
		}
		ft := f.Type()
		if pt, isPtr := deref(ft); isPtr {
			ft = pt
		}
		if es, ok := ft.Underlying().(*types.Struct); ok {
			if p, t := findField(es, name, depth+1); p != nil {
				return append([]int{i}, p...), t
			}
		}
	}
	return nil, nil
}

func (e *Env) evalIndex(x EIndex) (tval, error) {
	v, err := e.eval(x.X)
	if err != nil {
		return tval{}, err
	}
	i, err := e.eval(x.I)
	if err != nil {
		return tval{}, err
	}
	if v.T == nil {
		return tval{}, fmt.Errorf("index of untyped value")
	}
	t := v.T
	if et, ok := deref(t); ok {
		if arr, ok := et.Underlying().(*types.Array); ok {
			w := e.l().sizeOf(arr.Elem())
			addr := []string{v.C[0], e.vc().elemSlot(v.C[1], i.C[0], w)}
			return e.load(addr, arr.Elem(), e.st), nil
		}
	}
	switch tt := t.Underlying().(type) {
	case *types.Slice:
		w := e.l().sizeOf(tt.Elem())
		addr := []string{v.C[0], e.vc().elemSlot(v.C[1], i.C[0], w)}
		if v.St != nil {
			// old(s)[i]: the element s held in the old state at the index's current value
			r := e.load(addr, tt.Elem(), v.St)
			r.St = v.St
			return r, nil
		}
		return e.load(addr, tt.Elem(), e.st), nil
	case *types.Array:
		w := e.l().sizeOf(tt.Elem())
		if v.Addr != nil {
			addr := []string{v.Addr[0], e.vc().elemSlot(v.Addr[1], i.C[0], w)}
			return e.load(addr, tt.Elem(), e.st), nil
		}
		if k, err := strconv.Atoi(i.C[0]); err == nil && (k+1)*w <= len(v.C) {
			return tval{T: tt.Elem(), C: v.C[k*w : (k+1)*w]}, nil
		}
		return tval{}, fmt.Errorf("symbolic index into array value")
	}
	return tval{}, fmt.Errorf("index of %s", t)
}

func (e *Env) evalSlice(x ESlice) (tval, error) {
	v, err := e.eval(x.X)
	if err != nil {
		return tval{}, err
	}
	tt, ok := v.T.Underlying().(*types.Slice)
	if !ok {
		return tval{}, fmt.Errorf("slice expression on %s", v.T)
	}
	lo, hi := "0", v.C[2]
	if x.Lo != nil {
		l, err := e.eval(x.Lo)
		if err != nil {
			return tval{}, err
		}
		lo = l.C[0]
	}
	if x.Hi != nil {
		h, err := e.eval(x.Hi)
		if err != nil {
			return tval{}, err
		}
		hi = h.C[0]
	}
	w := e.l().sizeOf(tt.Elem())
	return tval{T: v.T, C: []string{v.C[0], sAdd(v.C[1], sMulC(lo, int64(w))), sSub(hi, lo), sSub(v.C[3], lo)}}, nil
}

func sSub(a, b string) string {
	if b == "0" {
		return a
	}
	if a == b {
		return "0"
	}
	return app("-", a, b)
}

func (e *Env) evalUn(x EUn) (tval, error) {
	v, err := e.eval(x.X)
	if err != nil {
		return tval{}, err
	}
	switch x.Op {
	case "!":
		return tval{T: boolT, C: []string{sNot(v.C[0])}}, nil
	case "-":
		if e.isF(v) {
			return tval{T: v.T, C: []string{app("fneg", v.C[0])}}, nil
		}
		return tval{T: intT, C: []string{app("-", v.C[0])}}, nil
	case "*":
		et, ok := deref(v.T)
		if !ok {
			return tval{}, fmt.Errorf("deref of non-pointer %s", v.T)
		}
		return e.load(v.C, et, e.st), nil
	case "&":
		if v.Addr == nil {
			return tval{}, fmt.Errorf("& of non-addressable expression")
		}
		return tval{T: types.NewPointer(v.T), C: v.Addr}, nil
	}
	return tval{}, fmt.Errorf("unary %s", x.Op)
}

func (e *Env) evalBin(x EBin) (tval, error) {
	switch x.Op {
	case "&&", "||", "==>", "<==>":
		a, err := e.evalBool(x.L)
		if err != nil {
			return tval{}, err
		}
		b, err := e.evalBool(x.R)
		if err != nil {
			return tval{}, err
		}
		var t string
		switch x.Op {
		case "&&":
			t = sAnd(a, b)
		case "||":
			t = sOr(a, b)
		case "==>":
			t = sImp(a, b)
		case "<==>":
			t = sEq(a, b)
		}
		return tval{T: boolT, C: []string{t}}, nil
	}
	a, err := e.eval(x.L)
	if err != nil {
		return tval{}, err
	}
	b, err := e.eval(x.R)
	if err != nil {
		return tval{}, err
	}
	switch x.Op {
	case "==", "!=":
		// alloc(a) != alloc(b): remembered so that the generator can resolve loads across writes to the other object
		if x.Op == "!=" {
			if ca, ok := x.L.(ECall); ok && ca.Fun == "alloc" {
				if cb, ok := x.R.(ECall); ok && cb.Fun == "alloc" && e.noteDistinct {
					e.vc().distinctFacts[e.vc().canon(a.C[0])+"|"+e.vc().canon(b.C[0])] = true
				}
			}
		}
		// nil comparisons
		if a.T == types.Typ[types.UntypedNil] {
			a, b = b, a
		}
		if b.T == types.Typ[types.UntypedNil] {
			var t string
			switch a.T.Underlying().(type) {
			case *types.Slice, *types.Pointer, *types.Map, *types.Chan, *types.Signature, *types.Interface:
				t = sEq(a.C[0], "0")
			default:
				return tval{}, fmt.Errorf("nil comparison with %s", a.T)
			}
			if x.Op == "!=" {
				t = sNot(t)
			}
			return tval{T: boolT, C: []string{t}}, nil
		}
		if len(a.C) != len(b.C) {
			return tval{}, fmt.Errorf("== on values of different shape (%d vs %d components)", len(a.C), len(b.C))
		}
		var eqs []string
		for i := range a.C {
			eqs = append(eqs, sEq(a.C[i], b.C[i]))
		}
		t := sAnd(eqs...)
		if x.Op == "!=" {
			t = sNot(t)
		}
		return tval{T: boolT, C: []string{t}}, nil
	case "<", "<=", ">", ">=":
		return tval{T: boolT, C: []string{app(x.Op, a.C[0], b.C[0])}}, nil
	case "+", "-", "*":
		if e.isF(a) || e.isF(b) {
			op := map[string]string{"+": "fadd", "-": "fsub", "*": "fmul"}[x.Op]
			return tval{T: e.l().specType("F"), C: []string{app(op, a.C[0], b.C[0])}}, nil
		}
		if x.Op == "-" {
			return tval{T: intT, C: []string{sSub(a.C[0], b.C[0])}}, nil
		}
		if x.Op == "+" {
			return tval{T: intT, C: []string{sAdd(a.C[0], b.C[0])}}, nil
		}
		return tval{T: intT, C: []string{app(x.Op, a.C[0], b.C[0])}}, nil
	case "/":
		return tval{T: intT, C: []string{app("div", a.C[0], b.C[0])}}, nil
	case "%":
		return tval{T: intT, C: []string{app("mod", a.C[0], b.C[0])}}, nil
	}
	return tval{}, fmt.Errorf("binary %s", x.Op)
}

func (e *Env) evalCall(x ECall) (tval, error) {
	switch x.Fun {
	case "entry":
		// entry(p): the value parameter p had on entry (parameters are mutable), read in the current state
		if len(x.Args) != 1 {
			return tval{}, fmt.Errorf("entry takes one argument")
		}
		ne := *e
		ne.inOld = true
		return ne.eval(x.Args[0])
	case "old":
		if len(x.Args) != 1 {
			return tval{}, fmt.Errorf("old takes one argument")
		}
		ne := *e
		ne.st = e.old
		ne.inOld = true
		v, err := ne.eval(x.Args[0])
		v.St = e.old
		return v, err
	case "len", "cap":
		v, err := e.eval(x.Args[0])
		if err != nil {
			return tval{}, err
		}
		t := v.T
		if et, ok := deref(t); ok {
			t = et
		}
		switch tt := t.Underlying().(type) {
		case *types.Slice:
			if x.Fun == "len" {
				return tval{T: intT, C: []string{v.C[2]}}, nil
			}
			return tval{T: intT, C: []string{v.C[3]}}, nil
		case *types.Array:
			return tval{T: intT, C: []string{sInt(tt.Len())}}, nil
		case *types.Basic:
			e.vc().declFun("strlen", []Sort{SInt}, SInt)
			return tval{T: intT, C: []string{app("strlen", v.C[0])}}, nil
		case *types.Map:
			e.vc().declFun("maplen", []Sort{SInt}, SInt)
			return tval{T: intT, C: []string{app("maplen", v.C[0])}}, nil
		}
		return tval{}, fmt.Errorf("%s of %s", x.Fun, v.T)
	case "int", "int64", "int32", "uint64", "uint32", "uint", "uint8", "byte", "int8", "uint16", "int16":
		v, err := e.eval(x.Args[0])
		if err != nil {
			return tval{}, err
		}
		return tval{T: intT, C: v.C}, nil
	case "ite":
		return e.eval(ECond{x.Args[0], x.Args[1], x.Args[2]})
	case "fadd", "fmul", "fsub", "fneg", "finv", "ofInt":
		var cs []string
		for _, a := range x.Args {
			v, err := e.eval(a)
			if err != nil {
				return tval{}, err
			}
			cs = append(cs, v.C...)
		}
		e.vc().useSort(SF)
		return tval{T: e.l().specType("F"), C: []string{app(x.Fun, cs...)}}, nil
	case "min", "max":
		a, err := e.eval(x.Args[0])
		if err != nil {
			return tval{}, err
		}
		b, err := e.eval(x.Args[1])
		if err != nil {
			return tval{}, err
		}
		op := "<="
		if x.Fun == "max" {
			op = ">="
		}
		return tval{T: intT, C: []string{sIte(app(op, a.C[0], b.C[0]), a.C[0], b.C[0])}}, nil
	case "fresh":
		// fresh(x): the object x points to was allocated during the call (contract postconditions only)
		v, err := e.eval(x.Args[0])
		if err != nil {
			return tval{}, err
		}
		if _, ok := refElem(v.T); !ok {
			return tval{}, fmt.Errorf("fresh of a non-reference value")
		}
		if e.old == nil {
			return tval{}, fmt.Errorf("fresh outside a postcondition")
		}
		return tval{T: boolT, C: []string{app(">=", v.C[0], e.old.brk)}}, nil
	case "allocated":
		// allocated(p): the object p points into exists in the current state (every reachable Go pointer does)
		v, err := e.eval(x.Args[0])
		if err != nil {
			return tval{}, err
		}
		if _, ok := refElem(v.T); !ok {
			return tval{}, fmt.Errorf("allocated of a non-reference value")
		}
		if e.noteDistinct && e.st.brk == "brk0" {
			// assumed at entry: the object predates everything the function allocates; the generator can then
			// resolve loads from it across writes to younger objects (birth clock 0)
			if _, ok := e.vc().birth[v.C[0]]; !ok {
				e.vc().birth[v.C[0]] = 0
			}
		}
		return tval{T: boolT, C: []string{app("<", v.C[0], e.st.brk)}}, nil
	case "alloc":
		// alloc(p): identity of the allocation a pointer/slice points into
		v, err := e.eval(x.Args[0])
		if err != nil {
			return tval{}, err
		}
		if _, ok := refElem(v.T); !ok {
			return tval{}, fmt.Errorf("alloc of a non-reference value")
		}
		return tval{T: intT, C: []string{v.C[0]}}, nil
	case "boxid":
		// boxid(v): the identity of the value an interface holds (for a boxed pointer: which object it points to)
		v, err := e.eval(x.Args[0])
		if err != nil {
			return tval{}, err
		}
		if !isIfaceT(v.T) || len(v.C) != 2 {
			return tval{}, fmt.Errorf("boxid of a non-interface value")
		}
		return tval{T: intT, C: []string{v.C[1]}}, nil
	case "iface":
		// iface(x): the interface value MakeInterface would produce for x (pure term, usable under quantifiers)
		v, err := e.eval(x.Args[0])
		if err != nil {
			return tval{}, err
		}
		if v.T == nil {
			return tval{}, fmt.Errorf("iface of untyped value")
		}
		anyT := types.NewInterfaceType(nil, nil)
		if isIfaceT(v.T) {
			return tval{T: anyT, C: v.C}, nil
		}
		tag := e.fr.eng.tagOf(v.T)
		if !e.l().flatOK(v.T) {
			return tval{}, fmt.Errorf("iface of a large value")
		}
		fn := fmt.Sprintf("box!%d", tag)
		e.vc().declFun(fn, e.l().layout(v.T), SInt)
		return tval{T: anyT, C: []string{sInt(int64(tag)), app(fn, v.C...)}}, nil
	case "as":
		// as(x, "T"): the value of dynamic type T held by interface x (unspecified if x holds another type)
		v, err := e.eval(x.Args[0])
		if err != nil {
			return tval{}, err
		}
		ts, ok := x.Args[1].(EStr)
		if !ok || len(v.C) != 2 {
			return tval{}, fmt.Errorf("as(x, \"type\") needs an interface value and a type name")
		}
		tag, ok := e.fr.eng.tagByName(ts.V)
		if !ok {
			return tval{}, fmt.Errorf("as: unknown type %s", ts.V)
		}
		var tt types.Type
		for k, id := range e.fr.eng.tags {
			if id == tag {
				tt = e.fr.eng.tagTypes[k]
			}
		}
		if tt == nil {
			return tval{}, fmt.Errorf("as: unresolved type %s", ts.V)
		}
		return tval{T: tt, C: e.fr.eng.unbox(e.vc(), tt, v.C[1])}, nil
	case "dynlen":
		v, err := e.eval(x.Args[0])
		if err != nil {
			return tval{}, err
		}
		if len(v.C) != 2 {
			return tval{}, fmt.Errorf("dynlen of a non-interface value")
		}
		e.vc().declFun("dynlen", []Sort{SInt}, SInt)
		return tval{T: intT, C: []string{app("dynlen", v.C[1])}}, nil
	case "typeIs":
		// typeIs(x, "pkg.Type"): dynamic type test on an interface value
		v, err := e.eval(x.Args[0])
		if err != nil {
			return tval{}, err
		}
		s, ok := x.Args[1].(EStr)
		if !ok {
			return tval{}, fmt.Errorf("typeIs needs a string type name")
		}
		tag, ok := e.fr.eng.tagByName(s.V)
		if !ok {
			return tval{}, fmt.Errorf("typeIs: unknown type %s", s.V)
		}
		return tval{T: boolT, C: []string{sEq(v.C[0], sInt(int64(tag)))}}, nil
	}
	if strings.HasPrefix(x.Fun, "old_") {
		if gs, isGhost := e.fr.eng.cs.Ghosts[x.Fun[4:]]; isGhost {
			// old_<ghost>(obj, idx): object and index evaluated now, ghost state read in the pre-state
			key, idx, srt, rt, err := e.ghostLoc(ECall{Fun: x.Fun[4:], Args: x.Args}, gs)
			if err != nil {
				return tval{}, err
			}
			return tval{T: rt, C: []string{e.vc().loadComp(e.old, srt, key, idx)}}, nil
		}
	}
	if gs, isGhost := e.fr.eng.cs.Ghosts[x.Fun]; isGhost {
		key, idx, srt, rt, err := e.ghostLoc(x, gs)
		if err != nil {
			return tval{}, err
		}
		return tval{T: rt, C: []string{e.vc().loadComp(e.st, srt, key, idx)}}, nil
	}
	sf, ok := e.fr.eng.cs.lookupSpec(e.pkgPath(), x.Fun)
	if !ok {
		return tval{}, fmt.Errorf("unknown function %s in contract", x.Fun)
	}
	var args []tval
	for _, a := range x.Args {
		v, err := e.eval(a)
		if err != nil {
			return tval{}, err
		}
		args = append(args, v)
	}
	return e.applySpec(sf, args)
}

func (e *Env) applySpec(sf *SpecFunc, args []tval) (tval, error) {
	if e.depth > 12 {
		return tval{}, fmt.Errorf("spec function nesting too deep (%s)", sf.Name)
	}
	// a parameter declared as a Variable takes interface values only (a local of the same name may be a
	// concrete term on another path: the clause then does not apply there)
	for i, p := range sf.Params {
		if i < len(args) && len(p) > 1 && (p[1] == "Variable" || p[1] == "frontend.Variable") && args[i].T != nil && !isIfaceT(args[i].T) {
			return tval{}, fmt.Errorf("%s: argument %d is a %s, not a Variable", sf.Name, i, args[i].T)
		}
	}
	if sf.Body != nil {
		if len(args) != len(sf.Params) {
			return tval{}, fmt.Errorf("%s: %d arguments, want %d", sf.Name, len(args), len(sf.Params))
		}
		ne := e.sub()
		// macro hygiene: the body sees only its parameters (and globals / spec functions)
		ne.vars = map[string]tval{}
		ne.fn = nil
		ne.loop = nil
		ne.result = nil
		if sf.Pkg != "" {
			for _, p := range e.fr.eng.pkgs {
				if p.PkgPath == sf.Pkg {
					ne.pkg = p.Types
				}
			}
		}
		for i, p := range sf.Params {
			ne.vars[p[0]] = args[i]
		}
		r, err := ne.eval(sf.Body)
		if err != nil {
			return r, err
		}
		// name long non-boolean results (e.g. den(v)): shorter queries, one e-graph node per value
		if len(r.C) == 1 && len(r.C[0]) > 60 && r.Addr == nil && !strings.Contains(r.C[0], "q_") && !isBool(r.T) {
			if lay := e.l().layout(r.T); len(lay) == 1 && lay[0] != SBool {
				vc := e.vc()
				if vc.macroNames == nil {
					vc.macroNames = map[string]string{}
				}
				nm, ok := vc.macroNames[r.C[0]]
				if !ok {
					nm = vc.fresh(sf.Name, lay[0])
					vc.assert(sEq(nm, r.C[0]))
					vc.macroNames[r.C[0]] = nm
				}
				r.C = []string{nm}
			}
		}
		return r, nil
	}
	ret := sf.Ret
	var reads []string
	if i := strings.Index(ret, " reads "); i >= 0 {
		reads = strings.FieldsFunc(ret[i+7:], func(r rune) bool { return r == ',' || r == ' ' })
		ret = strings.TrimSpace(ret[:i])
	}
	rt := e.l().specType(ret)
	rs := e.l().layout(rt)
	var cs []string
	var ss []Sort
	for _, rd := range reads {
		cs = append(cs, e.vc().memOf(e.st, Sort(rd)))
		ss = append(ss, Sort(memSort(Sort(rd))))
	}
	for i, a := range args {
		cs = append(cs, a.C...)
		ss = append(ss, e.sortsOf(a)...)
		// deep parameters (declared []T or *T): the function also depends on the rows the
		// reference points into; passing the resolved row terms makes unchanged memory give equal terms
		if i < len(sf.Params) && (strings.HasPrefix(sf.Params[i][1], "[]") || strings.HasPrefix(sf.Params[i][1], "*")) && a.T != nil {
			if et, ok := refElem(a.T); ok && e.l().flatOK(et) {
				st := e.st
				if a.St != nil {
					st = a.St
				}
				for _, srt := range uniqSorts(e.l().layout(et)) {
					cs = append(cs, e.vc().rowOf(st, srt, a.C[0]))
					ss = append(ss, Sort("(Array Int "+string(srt)+")"))
				}
			}
		}
	}
	if len(rs) != 1 {
		return tval{}, fmt.Errorf("spec function %s must return a scalar sort", sf.Name)
	}
	e.vc().declFunRaw(sf.Name, ss, rs[0])
	e.fr.eng.noteSpecUse(e.vc(), sf.Name)
	term := app(sf.Name, cs...)
	if sf.Prefix != "" {
		e.notePrefixApp(sf, args, cs, term)
	}
	return tval{T: rt, C: []string{term}}, nil
}

func (vc *VC) declFunRaw(name string, args []Sort, ret Sort) {
	sig := fmt.Sprint(args, ret)
	if old, ok := vc.declared[name]; ok {
		if old != sig {
			panic(fmt.Sprintf("spec function %s used with two signatures: %s vs %s", name, old, sig))
		}
		return
	}
	vc.declared[name] = sig
	var as []string
	for _, a := range args {
		if !strings.HasPrefix(string(a), "(") {
			vc.useSort(a)
		}
		as = append(as, string(a))
	}
	vc.useSort(ret)
	vc.decls = append(vc.decls, fmt.Sprintf("(declare-fun %s (%s) %s)", name, strings.Join(as, " "), ret))
}

// ghostLoc resolves name(obj, index) of a declared ghost channel to a location of its ghost memory
func (e *Env) ghostLoc(x ECall, sortName string) (key, idx string, srt Sort, rt types.Type, err error) {
	if len(x.Args) != 2 {
		return "", "", "", nil, fmt.Errorf("ghost %s takes (object, index)", x.Fun)
	}
	o, err := e.eval(x.Args[0])
	if err != nil {
		return "", "", "", nil, err
	}
	i, err := e.eval(x.Args[1])
	if err != nil {
		return "", "", "", nil, err
	}
	rt = e.l().specType(sortName)
	lay := e.l().layout(rt)
	srt = Sort(string(lay[0]) + "#" + x.Fun)
	if isIfaceT(o.T) && len(o.C) == 2 {
		key = o.C[1] // identity of the boxed object
	} else {
		key = o.C[0]
	}
	return key, i.C[0], srt, rt, nil
}

// prefixApp: one ground application of a prefix-extensional spec function (see SpecFunc.Prefix)
type prefixApp struct {
	term  string
	slice []string // ref, off, len, cap
	rows  map[Sort]string
	bound string
	rest  string // the remaining arguments, as one string
	w     int
	lay   []Sort
}

func (e *Env) notePrefixApp(sf *SpecFunc, args []tval, cs []string, term string) {
	if strings.Contains(term, "q_") || len(args) == 0 || args[0].T == nil {
		return
	}
	sl, ok := args[0].T.Underlying().(*types.Slice)
	if !ok || !e.l().flatOK(sl.Elem()) {
		return
	}
	vc := e.vc()
	st := e.st
	if args[0].St != nil {
		st = args[0].St
	}
	pa := prefixApp{term: term, slice: args[0].C, rows: map[Sort]string{}, w: e.l().sizeOf(sl.Elem()), lay: e.l().layout(sl.Elem())}
	for _, srt := range uniqSorts(pa.lay) {
		pa.rows[srt] = vc.rowOf(st, srt, args[0].C[0])
	}
	pa.bound = args[0].C[2]
	var rest []string
	for i := 1; i < len(args); i++ {
		if sf.Prefix != "len" && i < len(sf.Params) && sf.Params[i][0] == sf.Prefix {
			pa.bound = args[i].C[0]
			continue
		}
		rest = append(rest, args[i].C...)
	}
	pa.rest = strings.Join(rest, " ")
	if vc.prefixApps == nil {
		vc.prefixApps = map[string][]prefixApp{}
	}
	// a contract that reasons about sequences through concatenation (seqCat) does not need the element-wise
	// route, whose instances are quadratic in the number of slices met
	skipExt := sf.Name == "seqOf" && e.fr != nil && e.fr.conMentions("seqCat")
	for _, o := range vc.prefixApps[sf.Name] {
		if skipExt || o.term == term || o.rest != pa.rest || o.w != pa.w {
			continue
		}
		if isNumLit(o.bound) && isNumLit(pa.bound) && o.bound != pa.bound {
			continue
		}
		sameData := strings.Join(o.slice[:2], " ") == strings.Join(pa.slice[:2], " ")
		for srt, r := range pa.rows {
			if o.rows[srt] != r {
				sameData = false
			}
		}
		if sameData {
			continue // same elements: equal bounds give equal terms by congruence (len/cap arguments aside)
		}
		// equal bounds and element-wise equal prefixes give equal values
		var eqs []string
		for c, srt := range pa.lay {
			a := app("select", pa.rows[srt], vc.atTerm(pa.w, c, pa.slice[1], "j"))
			b := app("select", o.rows[srt], vc.atTerm(o.w, c, o.slice[1], "j"))
			eqs = append(eqs, sEq(a, b))
		}
		body := sImp(sAnd(app("<=", "0", "j"), app("<", "j", pa.bound)), sAnd(eqs...))
		vc.emit("(assert (=> (and (= " + pa.bound + " " + o.bound + ") (forall ((j Int)) " + body + ")) (= " + pa.term + " " + o.term + "))) ; prefix extensionality of " + sf.Name)
	}
	vc.prefixApps[sf.Name] = append(vc.prefixApps[sf.Name], pa)
	vc.assumptions["spec function "+sf.Name+" is declared to depend only on the first "+sf.Prefix+" elements of its slice argument (extensionality instances are generated)"] = true
}

package main

import (
	"bufio"
	"fmt"
	"go/token"
	"go/types"
	"os"
	"path/filepath"
	"sort"
	"strings"

	"golang.org/x/tools/go/packages"
	"golang.org/x/tools/go/ssa"
	"golang.org/x/tools/go/ssa/ssautil"
)

type Engine struct {
	prog    *ssa.Program
	pkgs    []*packages.Package
	spkgs   []*ssa.Package
	lay     *Layouter
	cs      *ContractSet
	forks   map[*Frame][]forkInfo
	strs    map[string]int
	tags    map[string]int
	tagTypes map[string]types.Type
	globals map[*ssa.Global]int
	funcs   map[*ssa.Function]int
	needPow2 bool
	bigPtr   types.Type // *math/big.Int when some loaded package imports math/big
	curTypeParams map[string]*types.TypeParam // type parameters of the function under verification, by name
	srcCache map[string][]string
	repo    string
	specUses map[*VC]map[string]bool
	nonNilGlobals map[*ssa.Global]bool
	aliases map[string]map[string]string // package path -> import alias -> import path
}

func newEngine(repo string) *Engine {
	return &Engine{lay: newLayouter(), cs: newContractSet(), forks: map[*Frame][]forkInfo{}, strs: map[string]int{}, tags: map[string]int{},
		tagTypes: map[string]types.Type{}, globals: map[*ssa.Global]int{}, funcs: map[*ssa.Function]int{}, srcCache: map[string][]string{}, repo: repo,
		specUses: map[*VC]map[string]bool{}, nonNilGlobals: map[*ssa.Global]bool{}}
}

func (eng *Engine) load(patterns []string, overlay map[string][]byte) error {
	cfg := &packages.Config{Mode: packages.LoadSyntax, Dir: eng.repo, BuildFlags: []string{"-tags=verif"}, Overlay: overlay,
		Env: append(os.Environ(), "GOFLAGS=-mod=mod", "GOPROXY=off", "GOSUMDB=off", "GOTOOLCHAIN=local")}
	pkgs, err := packages.Load(cfg, patterns...)
	if err != nil {
		return err
	}
	for _, p := range pkgs {
		if len(p.Errors) > 0 {
			return fmt.Errorf("package %s: %v", p.PkgPath, p.Errors[0])
		}
	}
	eng.pkgs = pkgs
	eng.aliases = map[string]map[string]string{}
	for _, p := range pkgs {
		m := map[string]string{}
		for _, f := range p.Syntax {
			for _, im := range f.Imports {
				path := strings.Trim(im.Path.Value, `"`)
				if im.Name != nil {
					m[im.Name.Name] = path
				}
			}
		}
		eng.aliases[p.PkgPath] = m
	}
	prog, spkgs := ssautil.Packages(pkgs, ssa.GlobalDebug|ssa.BareInits)
	eng.prog = prog
	eng.spkgs = spkgs
	for _, pk := range prog.AllPackages() {
		if pk.Pkg.Path() == "math/big" {
			if obj := pk.Pkg.Scope().Lookup("Int"); obj != nil {
				eng.bigPtr = types.NewPointer(obj.Type())
			}
		}
	}
	for _, sp := range spkgs {
		if sp != nil {
			sp.Build()
		}
	}
	// contracts next to the code
	for _, p := range pkgs {
		for _, f := range p.GoFiles {
			if strings.HasSuffix(f, "_verif.go") {
				if ov, ok := overlay[f]; ok {
					tmp, _ := os.CreateTemp("", "ov*.go")
					tmp.Write(ov)
					tmp.Close()
					err := eng.cs.parseContractFile(tmp.Name(), p.PkgPath)
					os.Remove(tmp.Name())
					if err != nil {
						return err
					}
					continue
				}
				if err := eng.cs.parseContractFile(f, p.PkgPath); err != nil {
					return err
				}
			}
		}
	}
	for k, v := range eng.cs.Opaque {
		eng.lay.opaqueCfg[k] = Sort(v)
	}
	for _, t := range eng.cs.Transp {
		eng.lay.transp[t] = true
	}
	return nil
}

func (eng *Engine) sourceLine(p token.Position) string {
	if !p.IsValid() {
		return ""
	}
	lines, ok := eng.srcCache[p.Filename]
	if !ok {
		f, err := os.Open(p.Filename)
		if err == nil {
			sc := bufio.NewScanner(f)
			sc.Buffer(make([]byte, 1<<20), 1<<20)
			for sc.Scan() {
				lines = append(lines, sc.Text())
			}
			f.Close()
		}
		eng.srcCache[p.Filename] = lines
	}
	if p.Line-1 < len(lines) && p.Line >= 1 {
		rel, _ := filepath.Rel(eng.repo, p.Filename)
		return fmt.Sprintf("%s:%d: %s", rel, p.Line, strings.TrimSpace(lines[p.Line-1]))
	}
	return p.String()
}

func (eng *Engine) strID(vc *VC, s string) string {
	id, ok := eng.strs[s]
	if !ok {
		id = len(eng.strs) + 1
		eng.strs[s] = id
	}
	name := fmt.Sprintf("str!%d", id)
	if _, ok := vc.declared[name]; !ok {
		vc.declConst(name, SInt)
		vc.declFun("strlen", []Sort{SInt}, SInt)
		vc.assert(sEq(name, sInt(int64(-1000-id))))
		vc.assert(sEq(app("strlen", name), sInt(int64(len(s)))))
	}
	return name
}

func (eng *Engine) globalRef(vc *VC, g *ssa.Global) string {
	id, ok := eng.globals[g]
	if !ok {
		id = len(eng.globals) + 1
		eng.globals[g] = id
	}
	// globals live in rows with negative ids, distinct from every allocation
	return sInt(int64(-id))
}

func (eng *Engine) funcID(vc *VC, f *ssa.Function) string {
	id, ok := eng.funcs[f]
	if !ok {
		id = len(eng.funcs) + 1
		eng.funcs[f] = id
	}
	return sInt(int64(-1000000 - id))
}

func (eng *Engine) tagOf(t types.Type) int {
	k := types.TypeString(t, nil)
	id, ok := eng.tags[k]
	if !ok {
		id = len(eng.tags) + 1
		eng.tags[k] = id
		eng.tagTypes[k] = t
		if os.Getenv("GOVC_DEBUG_TAGS") != "" {
			fmt.Fprintf(os.Stderr, "tag %d = %s\n", id, k)
		}
	}
	return id
}

func (eng *Engine) tagByName(name string) (int, bool) {
	{
		nStar := strings.HasPrefix(name, "*")
		nb := strings.TrimPrefix(name, "*")
		best, bestK := 0, ""
		for k, id := range eng.tags {
			if strings.HasPrefix(k, "*") != nStar {
				continue
			}
			kb := strings.TrimPrefix(k, "*")
			if kb == nb || strings.HasSuffix(kb, "/"+nb) || strings.HasSuffix(kb, "."+nb) {
				if bestK == "" || k < bestK {
					best, bestK = id, k
				}
			}
		}
		if bestK != "" {
			return best, true
		}
	}
	if obj := types.Universe.Lookup(name); obj != nil {
		if tn, ok := obj.(*types.TypeName); ok {
			return eng.tagOf(tn.Type()), true
		}
	}
	if tp, ok := eng.curTypeParams[name]; ok {
		return eng.tagOf(tp), true
	}
	// resolve through loaded packages
	for _, p := range eng.pkgs {
		star := strings.HasPrefix(name, "*")
		n := strings.TrimPrefix(name, "*")
		i := strings.LastIndex(n, ".")
		if i < 0 {
			continue
		}
		pkgName, tn := n[:i], n[i+1:]
		var scope *types.Scope
		if p.Types.Name() == pkgName || p.PkgPath == pkgName || strings.HasSuffix(p.PkgPath, "/"+pkgName) {
			scope = p.Types.Scope()
		} else {
			for _, imp := range p.Types.Imports() {
				if imp.Name() == pkgName || imp.Path() == pkgName || strings.HasSuffix(imp.Path(), "/"+pkgName) {
					scope = imp.Scope()
				}
			}
		}
		if scope == nil {
			continue
		}
		var targs []types.Type
		if b := strings.Index(tn, "["); b > 0 && strings.HasSuffix(tn, "]") {
			// instantiated generic type: arguments are type parameters of the function under verification
			// (by name) or predeclared types
			for _, an := range strings.Split(tn[b+1:len(tn)-1], ",") {
				an = strings.TrimSpace(an)
				var at types.Type
				if tp, ok := eng.curTypeParams[an]; ok {
					at = tp
				} else if o := types.Universe.Lookup(an); o != nil {
					at = o.Type()
				}
				if at == nil {
					return 0, false
				}
				targs = append(targs, at)
			}
			tn = tn[:b]
		}
		if obj := scope.Lookup(tn); obj != nil {
			t := obj.Type()
			if len(targs) > 0 {
				it, err := types.Instantiate(nil, t, targs, false)
				if err != nil {
					return 0, false
				}
				t = it
			}
			if star {
				t = types.NewPointer(t)
			}
			return eng.tagOf(t), true
		}
	}
	return 0, false
}

// box: immutable boxing of a value into an interface (tag, ref)
func (eng *Engine) box(vc *VC, t types.Type, comps []string) []string {
	if isIfaceT(t) {
		return comps
	}
	tag := eng.tagOf(t)
	if !eng.lay.flatOK(t) {
		return []string{sInt(int64(tag)), vc.fresh("box", SInt)}
	}
	lay := eng.lay.layout(t)
	fn := fmt.Sprintf("box!%d", tag)
	vc.declFun(fn, lay, SInt)
	var ref string
	if len(comps) == 0 {
		ref = fn
	} else {
		ref = vc.bind("boxed", SInt, app(fn, comps...))
	}
	for i, s := range lay {
		un := fmt.Sprintf("unbox!%d!%d", tag, i)
		vc.declFun(un, []Sort{SInt}, s)
		vc.assert(sEq(app(un, ref), comps[i]))
	}
	if len(comps) > 0 {
		// unboxing this very box (same dynamic type) yields the components, syntactically
		if vc.boxComps == nil {
			vc.boxComps = map[string][]string{}
		}
		vc.boxComps[fmt.Sprintf("%d:%s", tag, ref)] = comps
	}
	if _, isSlice := t.Underlying().(*types.Slice); isSlice && len(comps) == 4 {
		// dynlen(x): length of the slice held by an interface value
		vc.declFun("dynlen", []Sort{SInt}, SInt)
		vc.assert(sEq(app("dynlen", ref), comps[2]))
	}
	return []string{sInt(int64(tag)), ref}
}

func (eng *Engine) unbox(vc *VC, t types.Type, ref string) []string {
	tag := eng.tagOf(t)
	if !eng.lay.flatOK(t) {
		return []string{vc.fresh("unboxed", "BigArr")}
	}
	lay := eng.lay.layout(t)
	if cs, ok := vc.boxComps[fmt.Sprintf("%d:%s", tag, ref)]; ok && len(cs) == len(lay) {
		return append([]string{}, cs...)
	}
	out := make([]string, len(lay))
	for i, s := range lay {
		un := fmt.Sprintf("unbox!%d!%d", tag, i)
		if _, seen := vc.declared[un]; !seen && i == 0 {
			if pt, ok := types.Unalias(t).Underlying().(*types.Pointer); ok && isBigInt(pt.Elem()) {
				// a boxed non-nil *big.Int points to a big.Int object
				vc.declFun(un, []Sort{SInt}, s)
				vc.hasBigDecl()
				vc.decls = append(vc.decls, fmt.Sprintf("(assert (forall ((b Int)) (! (or (= (%s b) 0) (hasBig (%s b))) :pattern ((%s b)))))", un, un, un))
			}
		}
		vc.declFun(un, []Sort{SInt}, s)
		out[i] = app(un, ref)
	}
	return out
}

// initNonNil: package-level error variable initialised once (errors.New / fmt.Errorf / a boxed value) in
// the package initialiser and never assigned elsewhere: its value is non-nil whenever it is read.
func (eng *Engine) initNonNil(g *ssa.Global) bool {
	if v, ok := eng.nonNilGlobals[g]; ok {
		return v
	}
	res := false
	defer func() { eng.nonNilGlobals[g] = res }()
	pkg := g.Pkg
	if pkg == nil {
		return false
	}
	if _, isIface := g.Type().Underlying().(*types.Pointer).Elem().Underlying().(*types.Interface); !isIface {
		return false
	}
	initFn := pkg.Func("init")
	if initFn == nil || len(initFn.Blocks) == 0 {
		// dependency without a body: well-known sentinel errors
		n := pkg.Pkg.Path() + "." + g.Name()
		switch n {
		case "io.EOF", "io.ErrUnexpectedEOF", "io.ErrShortWrite", "io.ErrShortBuffer":
			res = true
		}
		return res
	}
	stores := 0
	good := false
	var scan func(fn *ssa.Function)
	scan = func(fn *ssa.Function) {
		for _, b := range fn.Blocks {
			for _, in := range b.Instrs {
				if st, ok := in.(*ssa.Store); ok && st.Addr == ssa.Value(g) {
					stores++
					if fn == initFn {
						switch v := st.Val.(type) {
						case *ssa.Call:
							if f := v.Common().StaticCallee(); f != nil {
								p := calleePkgPath(f)
								if (p == "errors" && f.Name() == "New") || (p == "fmt" && f.Name() == "Errorf") {
									good = true
								}
							}
						case *ssa.MakeInterface:
							good = true
						}
					}
				}
			}
		}
		for _, a := range fn.AnonFuncs {
			scan(a)
		}
	}
	for _, m := range pkg.Members {
		if fn, ok := m.(*ssa.Function); ok {
			scan(fn)
		}
		if t, ok := m.(*ssa.Type); ok {
			for _, tt := range []types.Type{t.Type(), types.NewPointer(t.Type())} {
				ms := eng.prog.MethodSets.MethodSet(tt)
				for i := 0; i < ms.Len(); i++ {
					if fn := eng.prog.MethodValue(ms.At(i)); fn != nil && fn.Pkg == pkg {
						scan(fn)
					}
				}
			}
		}
	}
	res = good && stores == 1
	return res
}

func (eng *Engine) checkedArith(fr *Frame) bool { return false }

func (eng *Engine) noteSpecUse(vc *VC, name string) {
	m := eng.specUses[vc]
	if m == nil {
		m = map[string]bool{}
		eng.specUses[vc] = m
	}
	m[name] = true
}

// findFunction resolves a contract key to the SSA function in the loaded packages.
func (eng *Engine) findFunction(key string) *ssa.Function {
	for _, sp := range eng.spkgs {
		if sp == nil {
			continue
		}
		for _, m := range sp.Members {
			switch x := m.(type) {
			case *ssa.Function:
				if f := matchFn(x, key); f != nil {
					return f
				}
			case *ssa.Type:
				if named, ok := x.Type().(*types.Named); ok {
					for i := 0; i < named.NumMethods(); i++ {
						if fn := eng.prog.FuncValue(named.Method(i)); fn != nil {
							if f := matchFn(fn, key); f != nil {
								return f
							}
						}
					}
				}
				for _, t := range []types.Type{x.Type(), types.NewPointer(x.Type())} {
					if named, ok := x.Type().(*types.Named); ok && named.TypeParams().Len() > 0 {
						break
					}
					ms := eng.prog.MethodSets.MethodSet(t)
					for i := 0; i < ms.Len(); i++ {
						if fn := eng.prog.MethodValue(ms.At(i)); fn != nil {
							if f := matchFn(fn, key); f != nil {
								return f
							}
						}
					}
				}
			}
		}
	}
	return nil
}

func matchFn(fn *ssa.Function, key string) *ssa.Function {
	if fn.Synthetic != "" && len(fn.Blocks) == 0 {
		return nil
	}
	if normKey(fn.String()) == key {
		return fn
	}
	for _, a := range fn.AnonFuncs {
		if f := matchFn(a, key); f != nil {
			return f
		}
	}
	return nil
}

// ---------------------------------------------------------------------------

// verifyFunc generates the obligations of one function under contract.
func (eng *Engine) verifyFunc(fn *ssa.Function, con *Contract, mode string) *VC {
	name := shortName(normKey(fn.String()))
	if mode != "" && mode != "plain" {
		name += "[" + mode + "]"
	}
	eng.curTypeParams = map[string]*types.TypeParam{}
	if tps := fn.TypeParams(); tps != nil {
		for i := 0; i < tps.Len(); i++ {
			eng.curTypeParams[tps.At(i).Obj().Name()] = tps.At(i)
		}
	}
	vc := newVC(eng, name)
	fr := &Frame{vc: vc, eng: eng, fn: fn, con: con, top: true, regs: map[ssa.Value][]string{}, clos: map[ssa.Value]*closureInfo{}, mode: mode}
	vc.declConst("brk0", SInt)
	vc.assert(app(">=", "brk0", "1"))
	fr.entry = State{mem: map[Sort]string{}, brk: "brk0"}
	fr.safety = con.NoPanic
	fr.safetyProps = con.NoPanicPr
	if len(fr.safetyProps) == 0 {
		fr.safetyProps = con.Props
	}
	for _, p := range fn.Params {
		c := fr.freshVal("p_"+p.Name(), p.Type())
		fr.regs[p] = c
		fr.params = append(fr.params, c)
		fr.assumeTypeFacts("true", p.Type(), c, &fr.entry)
		fr.notePointer("true", c, p.Type())
		// elements of a []any parameter that hold a *big.Int constant: the pointers inside values the caller
		// passes refer to objects that exist at entry (quantified form of the interface type fact)
		if sl, ok := types.Unalias(p.Type()).Underlying().(*types.Slice); ok && eng.bigPtr != nil {
			if it, ok := sl.Elem().Underlying().(*types.Interface); ok && it.NumMethods() == 0 && len(c) == 4 {
				row := vc.rowOf(&fr.entry, SInt, c[0])
				tag := app("select", row, vc.atTerm(2, 0, c[1], "j"))
				ref := app("select", row, vc.atTerm(2, 1, c[1], "j"))
				un := eng.unbox(vc, eng.bigPtr, ref)
				vc.assert("(forall ((j Int)) (! (=> (and (<= 0 j) (< j " + c[2] + ") (= " + tag + " " + sInt(int64(eng.tagOf(eng.bigPtr))) + ")) (< " + un[0] + " brk0)) :pattern (" + tag + ")))")
			}
		}
	}
	for _, fv := range fn.FreeVars {
		c := fr.freshVal("fv_"+fv.Name(), fv.Type())
		fr.free = append(fr.free, c)
		fr.assumeTypeFacts("true", fv.Type(), c, &fr.entry)
		if _, ok := deref(fv.Type()); ok {
			vc.assert(sNot(sEq(c[0], "0")))
		}
	}
	// distinct captured cells
	for i := range fr.free {
		for j := i + 1; j < len(fr.free); j++ {
			if len(fr.free[i]) == 2 && len(fr.free[j]) == 2 {
				vc.assert(sNot(sEq(fr.free[i][0], fr.free[j][0])))
			}
		}
	}
	// Go type safety: reference parameters whose element types differ denote different
	// allocations (assumption: no two parameters of different types point into one enclosing object)
	for i, p := range fn.Params {
		for j := i + 1; j < len(fn.Params); j++ {
			q := fn.Params[j]
			ti, oki := refElem(p.Type())
			tj, okj := refElem(q.Type())
			_, pi := types.Unalias(p.Type()).Underlying().(*types.Pointer)
			_, pj := types.Unalias(q.Type()).Underlying().(*types.Pointer)
			if oki && okj && pi && pj && types.Identical(ti, tj) {
				// two pointers to objects of the same type are equal or denote disjoint objects
				a, b := fr.params[i], fr.params[j]
				sz := sInt(int64(eng.lay.sizeOf(ti)))
				vc.assert(sOr(sAnd(sEq(a[0], b[0]), sEq(a[1], b[1])), sNot(sEq(a[0], b[0])), app(">=", app("-", a[1], b[1]), sz), app(">=", app("-", b[1], a[1]), sz)))
			}
			if oki && okj && !types.Identical(ti, tj) {
				vc.assert(sOr(sEq(fr.params[i][0], "0"), sNot(sEq(fr.params[i][0], fr.params[j][0]))))
				vc.assumptions["reference parameters of different element types do not alias (Go type safety; interior overlap of differently typed parameters excluded)"] = true
			}
		}
	}
	env := fr.newEnv(&fr.entry)
	env.noteDistinct = true
	for _, c := range con.Requires {
		g, err := env.evalBool(c.E)
		if err != nil {
			fr.contractError(fmt.Sprintf("requires %q: %v", c.Text, err))
			continue
		}
		vc.assert(g)
	}
	// lemma instances that mention only parameters are assumed at entry (they are needed at call sites
	// inside the body); the others at the return points where their names are in scope
	entryLemma := map[int]bool{}
	for li, c := range con.Lemmas {
		lenv := fr.newEnv(&fr.entry)
		lenv.paramsOnly = true
		if g, err := lenv.evalBool(c.E); err == nil {
			vc.assert(g)
			vc.assumptions["lemma instance (trusted) in "+name+": "+c.Text] = true
			entryLemma[li] = true
		}
	}
	// axioms that only mention declared spec functions are added lazily at query time
	vac := &Obl{Name: name + "#vacuity(requires)", Kind: "vacuity", Goal: "true", Reach: "true", LineIdx: len(vc.lines), Cover: true, Func: name, Props: con.Props,
		Text: "the precondition (with type facts) is satisfiable"}
	vc.obls = append(vc.obls, vac)
	fr.run("true")
	if fr.unsupported != "" {
		vc.oblig("unsupported", "", "true", "false", fr.pos(fn.Pos()), con.Props, "function outside the subset: "+fr.unsupported)
		return vc
	}
	// pending forks without a join
	if len(eng.forks[fr]) > 0 {
		vc.unmodelled["goroutine started in "+fn.String()+" is never joined: its effects are not modelled"] = true
	}
	// postconditions at every return
	for ri, rt := range fr.rets {
		st := rt.st
		env := fr.newEnv(&st)
		env.at = rt.blk
		env.result = splitResults(eng.lay, fn.Signature.Results(), rt.vals)
		if fn.Signature.Results().Len() == 1 {
			env.result = []tval{{T: fn.Signature.Results().At(0).Type(), C: rt.vals}}
		}
		for i := 0; i < fn.Signature.Results().Len(); i++ {
			env.resNames = append(env.resNames, fn.Signature.Results().At(i).Name())
		}
		for li, c := range con.Lemmas {
			if entryLemma[li] {
				continue
			}
			// a lemma instance is an elementary mathematical fact about spec functions stated for this
			// function's values; it is assumed (and listed) wherever the names it mentions are in scope
			if g, err := env.evalBool(c.E); err == nil {
				vc.assert(sImp(rt.reach, g))
				vc.assumptions["lemma instance (trusted) in "+name+": "+c.Text] = true
			} else if os.Getenv("GOVC_DEBUG") != "" {
				fmt.Fprintf(os.Stderr, "lemma %s at ret%d of %s not applicable: %v\n", c.Label, ri, name, err)
			}
		}
		for _, d := range fr.deferredPre {
			vc.oblig(d.name, fmt.Sprintf("@ret%d", ri), sAnd(rt.reach, d.reach), d.goal, d.pos, d.props, d.text)
		}
		for ci, c := range con.Ensures {
			g, err := env.evalBool(c.E)
			if err != nil {
				fr.contractError(fmt.Sprintf("ensures %q: %v", c.Text, err))
				continue
			}
			lab := c.Label
			if lab == "" {
				lab = fmt.Sprintf("%d", ci)
			}
			o := vc.oblig("ensures", fmt.Sprintf("%s@ret%d", lab, ri), rt.reach, g, fr.pos(rt.pos), c.Props, "postcondition "+c.Text+"  at return "+fr.srcLine(rt.pos))
			_ = o
		}
	}
	return vc
}

func (eng *Engine) relevantAxioms(vc *VC) []string {
	var out []string
	fr := &Frame{vc: vc, eng: eng, regs: map[ssa.Value][]string{}}
	// an axiom is relevant when it mentions an uninterpreted spec function the VC uses; including it may
	// declare further functions, which may make further axioms relevant (fixpoint)
	done := map[*Axiom]bool{}
	for changed := true; changed; {
		changed = false
		for _, ax := range eng.cs.Axioms {
			if done[ax] {
				continue
			}
			names := specNames(ax.E, nil)
			ok := false
			for _, n := range names {
				if sf, isSpec := eng.cs.lookupSpec(ax.Pkg, n); isSpec && sf.Body == nil {
					// used by a contract clause of this VC (or by an axiom already included): engine-internal
					// uses of the same symbol (pow2 from shifts) do not pull the lemma library in
					if eng.specUses[vc][n] {
						ok = true
					}
				}
			}
			if !ok {
				continue
			}
			done[ax] = true
			changed = true
			st := State{mem: map[Sort]string{}, brk: "brk0"}
			env := &Env{fr: fr, st: &st, old: &st, vars: map[string]tval{}}
			for _, p := range eng.pkgs {
				if p.PkgPath == ax.Pkg {
					env.pkg = p.Types
				}
			}
			g, err := env.evalBool(ax.E)
			if err != nil {
				vc.assumptions["axiom "+ax.Name+" could not be evaluated: "+err.Error()] = true
				continue
			}
			vc.assumptions["axiom "+ax.Name+" (trusted lemma): "+ax.Text] = true
			out = append(out, "(assert "+g+") ; axiom "+ax.Name)
		}
	}
	sort.Strings(out)
	return out
}

func specNames(e Expr, acc []string) []string {
	switch x := e.(type) {
	case ECall:
		acc = append(acc, x.Fun)
		for _, a := range x.Args {
			acc = specNames(a, acc)
		}
	case ESel:
		acc = specNames(x.X, acc)
	case EIndex:
		acc = specNames(x.X, acc)
		acc = specNames(x.I, acc)
	case ESlice:
		acc = specNames(x.X, acc)
		if x.Lo != nil {
			acc = specNames(x.Lo, acc)
		}
		if x.Hi != nil {
			acc = specNames(x.Hi, acc)
		}
	case EUn:
		acc = specNames(x.X, acc)
	case EBin:
		acc = specNames(x.L, acc)
		acc = specNames(x.R, acc)
	case EQuant:
		acc = specNames(x.Body, acc)
		for _, pe := range x.Pats {
			acc = specNames(pe, acc)
		}
	case ECond:
		acc = specNames(x.C, acc)
		acc = specNames(x.A, acc)
		acc = specNames(x.B, acc)
	}
	return acc
}

func refElem(t types.Type) (types.Type, bool) {
	switch tt := types.Unalias(t).Underlying().(type) {
	case *types.Pointer:
		return tt.Elem(), true
	case *types.Slice:
		return tt.Elem(), true
	}
	return nil, false
}

package main

// Contract files: comment-only Go files (`//go:build verif`) next to the code
// in /repo, and *.spec files for dependencies under /verif/contracts/ext.

import (
	"bufio"
	"fmt"
	"os"
	"path/filepath"
	"regexp"
	"strconv"
	"strings"
)

type Clause struct {
	E     Expr
	Text  string
	Props []string
	Label string
	Line  int
	Lemma bool // loop K lemma: a trusted lemma instance about the current iteration's values, assumed at the loop head
}

type SpecFunc struct {
	Name   string
	Params [][2]string
	Ret    string
	Body   Expr
	Text   string
	Pkg    string
	// Prefix: the function of a slice depends only on its first k elements ("prefix k": k is the named
	// int parameter; "prefix len": the slice's own length). The generator then relates two applications
	// on slices whose first k elements coincide (extensionality, part of the function's declaration).
	Prefix string
}

type Axiom struct {
	Name string
	E    Expr
	Text string
	Pkg  string
}

type Contract struct {
	Key        string
	File       string
	Line       int
	Props      []string
	Requires   []Clause
	Ensures    []Clause
	Constraint []Clause // gadget-mode constraint clauses
	Hint       []Clause // gadget-mode: facts about honest hint outputs (completeness mode)
	Lemmas     []Clause // trusted lemma instances assumed at the return points where their names are in scope
	Assigns    []Clause
	HasAssigns bool
	NoPanic    bool
	NoPanicPr  []string
	PanicsOnly *Clause
	Loops      map[int][]Clause
	Trusted    string
	Pure       bool
	Modes      []string // soundness, completeness
	Forks      []string
	Inline     bool
	Bounded    string
	Uses       []string
	glob       *regexp.Regexp
}

type ContractSet struct {
	ByKey  map[string]*Contract
	Globs  []*Contract
	Specs  map[string]*SpecFunc
	Axioms []*Axiom
	Opaque map[string]string
	Ghosts map[string]string
	Transp []string
	Monotone map[string]bool // ghost counters (see 'ghost ... monotone')
	Files  []string
}

func newContractSet() *ContractSet {
	return &ContractSet{ByKey: map[string]*Contract{}, Specs: map[string]*SpecFunc{}, Opaque: map[string]string{}, Ghosts: map[string]string{}}
}

var clauseKW = map[string]bool{"requires": true, "ensures": true, "assigns": true, "nopanic": true, "loop": true, "trusted": true,
	"pure": true, "lemma": true, "props": true, "constraint": true, "hint": true, "mode": true, "fork": true, "panics-only-if": true, "inline": true, "bounded": true, "use": true}

var topKW = map[string]bool{"spec": true, "axiom": true, "contract": true, "opaque": true, "transparent": true, "ghost": true}

var typeArgRe = regexp.MustCompile(`\[[^\]]*\]`)

func normKey(k string) string { return typeArgRe.ReplaceAllString(k, "") }

// parseContractFile reads one file. pkgPath is "" for ext spec files (keys are
// then full names, possibly with * globs).
func (cs *ContractSet) parseContractFile(file, pkgPath string) error {
	f, err := os.Open(file)
	if err != nil {
		return err
	}
	defer f.Close()
	cs.Files = append(cs.Files, file)
	sc := bufio.NewScanner(f)
	sc.Buffer(make([]byte, 1<<20), 1<<20)
	type item struct {
		line int
		text string
	}
	var items []item
	ln := 0
	for sc.Scan() {
		ln++
		l := strings.TrimSpace(sc.Text())
		if !strings.HasPrefix(l, "//@") {
			continue
		}
		t := strings.TrimSpace(l[3:])
		// strip trailing line comment
		if i := strings.Index(t, " // "); i >= 0 {
			t = strings.TrimSpace(t[:i])
		}
		if t == "" {
			continue
		}
		w := strings.Fields(t)[0]
		if i := strings.Index(w, "["); i > 0 {
			w = w[:i]
		}
		if topKW[w] || clauseKW[w] {
			items = append(items, item{ln, t})
		} else if len(items) > 0 {
			items[len(items)-1].text += " " + t
		} else {
			return fmt.Errorf("%s:%d: stray contract text", file, ln)
		}
	}
	var cur *Contract
	for _, it := range items {
		w := strings.Fields(it.text)
		rest := strings.TrimSpace(it.text[len(w[0]):])
		kw := w[0]
		var props []string
		if i := strings.Index(kw, "["); i > 0 {
			props = strings.Split(strings.Trim(kw[i:], "[]"), ",")
			kw = kw[:i]
		}
		errf := func(e error) error { return fmt.Errorf("%s:%d: %v", file, it.line, e) }
		mkClause := func(text string) (Clause, error) {
			c := Clause{Text: text, Props: props, Line: it.line}
			if strings.HasPrefix(text, "@") {
				f := strings.Fields(text)
				c.Label = f[0][1:]
				text = strings.TrimSpace(text[len(f[0]):])
				c.Text = text
			}
			e, err := parseExpr(text)
			if err != nil {
				return c, errf(err)
			}
			c.E = e
			return c, nil
		}
		switch kw {
		case "spec":
			// spec func name(params) ret [= body]
			r := strings.TrimSpace(strings.TrimPrefix(rest, "func"))
			body := ""
			if i := strings.Index(r, " = "); i >= 0 {
				body = strings.TrimSpace(r[i+3:])
				r = strings.TrimSpace(r[:i])
			}
			op := strings.Index(r, "(")
			cp := strings.LastIndex(r, ")")
			if op < 0 || cp < op {
				return errf(fmt.Errorf("bad spec func"))
			}
			sf := &SpecFunc{Name: strings.TrimSpace(r[:op]), Ret: strings.TrimSpace(r[cp+1:]), Text: it.text}
			if i := strings.Index(sf.Ret, " prefix "); i >= 0 {
				sf.Prefix = strings.TrimSpace(sf.Ret[i+8:])
				sf.Ret = strings.TrimSpace(sf.Ret[:i])
			}
			for _, p := range strings.Split(r[op+1:cp], ",") {
				p = strings.TrimSpace(p)
				if p == "" {
					continue
				}
				f := strings.Fields(p)
				ty := ""
				if len(f) > 1 {
					ty = f[1]
				}
				sf.Params = append(sf.Params, [2]string{f[0], ty})
			}
			if body != "" {
				e, err := parseExpr(body)
				if err != nil {
					return errf(err)
				}
				sf.Body = e
			}
			sf.Pkg = pkgPath
			if pkgPath != "" {
				cs.Specs[pkgPath+"."+sf.Name] = sf
			} else {
				cs.Specs[sf.Name] = sf
			}
			cur = nil
		case "axiom":
			i := strings.Index(rest, ":")
			if i < 0 {
				return errf(fmt.Errorf("axiom needs a name"))
			}
			e, err := parseExpr(strings.TrimSpace(rest[i+1:]))
			if err != nil {
				return errf(err)
			}
			cs.Axioms = append(cs.Axioms, &Axiom{Name: strings.TrimSpace(rest[:i]), E: e, Text: rest, Pkg: pkgPath})
			cur = nil
		case "ghost":
			// ghost <name> <sort>: abstract per-object state name(obj, index), e.g. the value of wire i of a solver
			f := strings.Fields(rest)
			if len(f) == 3 && f[2] == "monotone" {
				// a counter: every effect clause only increases it, so an unknown callee or loop body leaves it at least as large
				if cs.Monotone == nil {
					cs.Monotone = map[string]bool{}
				}
				cs.Monotone[f[0]] = true
				f = f[:2]
			}
			if len(f) != 2 {
				return errf(fmt.Errorf("ghost <name> <sort> [monotone]"))
			}
			cs.Ghosts[f[0]] = f[1]
		case "opaque":
			f := strings.Fields(rest)
			if len(f) != 2 {
				return errf(fmt.Errorf("opaque <type> <sort>"))
			}
			cs.Opaque[f[0]] = f[1]
		case "transparent":
			cs.Transp = append(cs.Transp, strings.Fields(rest)...)
		case "contract":
			key := strings.TrimSpace(rest)
			key = strings.TrimPrefix(key, "func ")
			key = strings.TrimSpace(key)
			cur = &Contract{File: file, Line: it.line, Loops: map[int][]Clause{}, Props: props}
			if pkgPath != "" {
				key = qualifyKey(key, pkgPath)
			}
			cur.Key = normKey(key)
			if strings.Contains(cur.Key, "*/") || strings.Contains(cur.Key, "/*") || strings.Contains(cur.Key, ".*") {
				pat := regexp.QuoteMeta(cur.Key)
				pat = strings.ReplaceAll(pat, `\*/`, `[^ ()]*/`)
				pat = strings.ReplaceAll(pat, `/\*`, `/[^ ()]*`)
				pat = strings.ReplaceAll(pat, `\.\*`, `\.[^ ()]*`)
				cur.glob = regexp.MustCompile("^" + pat + "$")
				for _, g := range cs.Globs {
					if g.Key == cur.Key {
						return errf(fmt.Errorf("duplicate contract %s (first at %s:%d)", cur.Key, g.File, g.Line))
					}
				}
				cs.Globs = append(cs.Globs, cur)
			} else {
				if _, dup := cs.ByKey[cur.Key]; dup {
					return errf(fmt.Errorf("duplicate contract %s", cur.Key))
				}
				cs.ByKey[cur.Key] = cur
			}
		default:
			if cur == nil {
				return errf(fmt.Errorf("clause %q outside a contract", kw))
			}
			switch kw {
			case "requires", "ensures", "constraint", "hint", "assigns", "panics-only-if", "lemma":
				if kw == "assigns" {
					cur.HasAssigns = true
					if rest == "" || rest == "nothing" {
						continue
					}
					for _, part := range splitTop(rest) {
						c, err := mkClause(part)
						if err != nil {
							return err
						}
						cur.Assigns = append(cur.Assigns, c)
					}
					continue
				}
				c, err := mkClause(rest)
				if err != nil {
					return err
				}
				switch kw {
				case "requires":
					cur.Requires = append(cur.Requires, c)
				case "ensures":
					cur.Ensures = append(cur.Ensures, c)
				case "constraint":
					cur.Constraint = append(cur.Constraint, c)
				case "hint":
					cur.Hint = append(cur.Hint, c)
				case "lemma":
					cur.Lemmas = append(cur.Lemmas, c)
				case "panics-only-if":
					cur.PanicsOnly = &c
					cur.NoPanic = true
					cur.NoPanicPr = props
				}
			case "nopanic":
				cur.NoPanic = true
				cur.NoPanicPr = props
			case "loop":
				f := strings.Fields(rest)
				if len(f) < 3 || (f[1] != "invariant" && f[1] != "lemma") {
					return errf(fmt.Errorf("loop K invariant|lemma EXPR"))
				}
				k, err := strconv.Atoi(f[0])
				if err != nil {
					return errf(err)
				}
				txt := strings.TrimSpace(rest[strings.Index(rest, f[1])+len(f[1]):])
				c, err := mkClause(txt)
				if err != nil {
					return err
				}
				c.Lemma = f[1] == "lemma"
				cur.Loops[k] = append(cur.Loops[k], c)
			case "trusted":
				cur.Trusted = strings.Trim(rest, `"`)
				if cur.Trusted == "" {
					cur.Trusted = "trusted"
				}
			case "pure":
				cur.Pure = true
				cur.HasAssigns = true
			case "props":
				cur.Props = append(cur.Props, strings.FieldsFunc(rest, func(r rune) bool { return r == ',' || r == ' ' })...)
			case "mode":
				cur.Modes = append(cur.Modes, strings.Fields(rest)...)
			case "fork":
				cur.Forks = append(cur.Forks, rest)
			case "inline":
				cur.Inline = true
			case "bounded":
				cur.Bounded = rest
			case "use":
				cur.Uses = append(cur.Uses, strings.Fields(rest)...)
			}
		}
	}
	return nil
}

// splitTop splits on commas not nested in brackets
func splitTop(s string) []string {
	var out []string
	d := 0
	st := 0
	for i, c := range s {
		switch c {
		case '(', '[':
			d++
		case ')', ']':
			d--
		case ',':
			if d == 0 {
				out = append(out, strings.TrimSpace(s[st:i]))
				st = i + 1
			}
		}
	}
	out = append(out, strings.TrimSpace(s[st:]))
	return out
}

// qualifyKey turns a package-local key (Verify, (*Proof).isValid, Verify$1,
// iface API.Mul) into the form ssa's Function.String() uses.
func qualifyKey(key, pkg string) string {
	if strings.HasPrefix(key, "iface ") {
		k := strings.TrimSpace(key[6:])
		i := strings.LastIndex(k, ".")
		t := k[:i]
		if !strings.Contains(t, ".") {
			t = pkg + "." + t
		}
		return "(" + t + ")." + k[i+1:]
	}
	if strings.HasPrefix(key, "functype ") {
		// calls through a value of the named function type (e.g. functional options): `self` is the value
		return "functype " + pkg + "." + strings.TrimSpace(key[9:])
	}
	if strings.HasPrefix(key, "(*") {
		return "(*" + pkg + "." + key[2:]
	}
	if strings.HasPrefix(key, "(") {
		return "(" + pkg + "." + key[1:]
	}
	return pkg + "." + key
}

func (cs *ContractSet) lookup(name string) *Contract {
	name = normKey(name)
	if c, ok := cs.ByKey[name]; ok {
		return c
	}
	for _, g := range cs.Globs {
		if g.glob.MatchString(name) {
			return g
		}
	}
	return nil
}

func (cs *ContractSet) loadExtDir(dir string) error {
	files, _ := filepath.Glob(filepath.Join(dir, "*.spec"))
	for _, f := range files {
		if err := cs.parseContractFile(f, ""); err != nil {
			return err
		}
	}
	return nil
}

// lookupSpec resolves a spec function name: the current package's definition first, then the global (ext) ones
func (cs *ContractSet) lookupSpec(pkg, name string) (*SpecFunc, bool) {
	if pkg != "" {
		if sf, ok := cs.Specs[pkg+"."+name]; ok {
			return sf, true
		}
	}
	sf, ok := cs.Specs[name]
	return sf, ok
}

package main

// Contract expression language: Go-like expressions extended with
// forall/exists, ==>, <==>, old(.), result, c ? a : b.

import (
	"fmt"
	"strings"
	"unicode"
)

type Expr interface{}

type (
	EIdent struct{ Name string }
	EInt   struct{ V string }
	EBool  struct{ V bool }
	EStr   struct{ V string }
	ESel   struct {
		X    Expr
		Name string
	}
	EIndex struct{ X, I Expr }
	ESlice struct{ X, Lo, Hi Expr }
	ECall  struct {
		Fun  string
		Args []Expr
	}
	EUn struct {
		Op string
		X  Expr
	}
	EBin struct {
		Op   string
		L, R Expr
	}
	EQuant struct {
		Forall bool
		Vars   [][2]string // name, type
		Body   Expr
		Pats   []Expr // optional multi-pattern: forall x T :: trig(t1, t2) body
	}
	ECond struct{ C, A, B Expr }
)

type tok struct {
	k string // id int str op eof
	s string
}

func lexExpr(src string) ([]tok, error) {
	// identifiers may contain non-ASCII letters (Go allows them): lex over runes
	s := []rune(src)
	var ts []tok
	i := 0
	ops := []string{"<==>", "==>", "&&", "||", "==", "!=", "<=", ">=", "::", "<<", ">>", "..", "+", "-", "*", "/", "%", "(", ")", "[", "]", ",", ":", "?", ".", "<", ">", "!", "&", "|", "^"}
	for i < len(s) {
		c := s[i]
		switch {
		case unicode.IsSpace(c):
			i++
		case unicode.IsLetter(c) || c == '_':
			j := i
			for j < len(s) && (unicode.IsLetter(s[j]) || unicode.IsDigit(s[j]) || s[j] == '_' || s[j] == '$') {
				j++
			}
			ts = append(ts, tok{"id", string(s[i:j])})
			i = j
		case unicode.IsDigit(c):
			j := i
			for j < len(s) && (unicode.IsDigit(s[j]) || s[j] == 'x' || (s[j] >= 'a' && s[j] <= 'f') || (s[j] >= 'A' && s[j] <= 'F')) {
				j++
			}
			ts = append(ts, tok{"int", string(s[i:j])})
			i = j
		case c == '"':
			j := i + 1
			for j < len(s) && s[j] != '"' {
				j++
			}
			if j >= len(s) {
				return nil, fmt.Errorf("unterminated string")
			}
			ts = append(ts, tok{"str", string(s[i+1 : j])})
			i = j + 1
		default:
			found := false
			for _, o := range ops {
				if strings.HasPrefix(string(s[i:min(i+4, len(s))]), o) {
					ts = append(ts, tok{"op", o})
					i += len(o)
					found = true
					break
				}
			}
			if !found {
				return nil, fmt.Errorf("bad character %q in %q", c, src)
			}
		}
	}
	ts = append(ts, tok{"eof", ""})
	return ts, nil
}

type eparser struct {
	ts []tok
	p  int
}

func (p *eparser) peek() tok { return p.ts[p.p] }
func (p *eparser) next() tok { t := p.ts[p.p]; p.p++; return t }
func (p *eparser) isOp(s string) bool {
	t := p.peek()
	return t.k == "op" && t.s == s
}
func (p *eparser) expectOp(s string) error {
	if !p.isOp(s) {
		return fmt.Errorf("expected %q, got %q", s, p.peek().s)
	}
	p.p++
	return nil
}

func parseExpr(s string) (e Expr, err error) {
	ts, err := lexExpr(s)
	if err != nil {
		return nil, err
	}
	p := &eparser{ts: ts}
	defer func() {
		if r := recover(); r != nil {
			err = fmt.Errorf("parse error in %q: %v", s, r)
		}
	}()
	e = p.expr()
	if p.peek().k != "eof" {
		return nil, fmt.Errorf("trailing tokens at %q in %q", p.peek().s, s)
	}
	return e, nil
}

func (p *eparser) expr() Expr {
	t := p.peek()
	if t.k == "id" && (t.s == "forall" || t.s == "exists") {
		p.next()
		q := EQuant{Forall: t.s == "forall"}
		for {
			n := p.next()
			if n.k != "id" {
				panic("quantifier variable expected")
			}
			ty := p.next()
			if ty.k != "id" {
				panic("quantifier type expected")
			}
			q.Vars = append(q.Vars, [2]string{n.s, ty.s})
			if p.isOp(",") {
				p.next()
				continue
			}
			break
		}
		if err := p.expectOp("::"); err != nil {
			panic(err)
		}
		if t := p.peek(); t.k == "id" && t.s == "trig" {
			if c, ok := p.unary().(ECall); ok && c.Fun == "trig" {
				q.Pats = c.Args
			} else {
				panic("trig(...) expected")
			}
		}
		q.Body = p.expr()
		return q
	}
	return p.iff()
}

func (p *eparser) iff() Expr {
	l := p.imp()
	for p.isOp("<==>") {
		p.next()
		r := p.imp()
		l = EBin{"<==>", l, r}
	}
	return l
}

func (p *eparser) imp() Expr {
	l := p.cond()
	if p.isOp("==>") {
		p.next()
		var r Expr
		if t := p.peek(); t.k == "id" && (t.s == "forall" || t.s == "exists") {
			r = p.expr()
		} else {
			r = p.imp()
		}
		return EBin{"==>", l, r}
	}
	return l
}

func (p *eparser) cond() Expr {
	c := p.or()
	if p.isOp("?") {
		p.next()
		a := p.cond()
		if err := p.expectOp(":"); err != nil {
			panic(err)
		}
		b := p.cond()
		return ECond{c, a, b}
	}
	return c
}

func (p *eparser) or() Expr {
	l := p.and()
	for p.isOp("||") {
		p.next()
		l = EBin{"||", l, p.and()}
	}
	return l
}

func (p *eparser) and() Expr {
	l := p.cmp()
	for p.isOp("&&") {
		p.next()
		var r Expr
		if t := p.peek(); t.k == "id" && (t.s == "forall" || t.s == "exists") {
			r = p.expr()
		} else {
			r = p.cmp()
		}
		l = EBin{"&&", l, r}
	}
	return l
}

func (p *eparser) cmp() Expr {
	l := p.add()
	for {
		t := p.peek()
		if t.k == "op" && (t.s == "==" || t.s == "!=" || t.s == "<" || t.s == "<=" || t.s == ">" || t.s == ">=") {
			p.next()
			r := p.add()
			l = EBin{t.s, l, r}
			continue
		}
		return l
	}
}

func (p *eparser) add() Expr {
	l := p.mul()
	for {
		t := p.peek()
		if t.k == "op" && (t.s == "+" || t.s == "-") {
			p.next()
			l = EBin{t.s, l, p.mul()}
			continue
		}
		return l
	}
}

func (p *eparser) mul() Expr {
	l := p.unary()
	for {
		t := p.peek()
		if t.k == "op" && (t.s == "*" || t.s == "/" || t.s == "%") {
			p.next()
			l = EBin{t.s, l, p.unary()}
			continue
		}
		return l
	}
}

func (p *eparser) unary() Expr {
	t := p.peek()
	if t.k == "op" && (t.s == "!" || t.s == "-" || t.s == "*" || t.s == "&") {
		p.next()
		return EUn{t.s, p.unary()}
	}
	return p.postfix()
}

func (p *eparser) postfix() Expr {
	e := p.primary()
	for {
		switch {
		case p.isOp("."):
			p.next()
			n := p.next()
			if n.k != "id" && n.k != "int" {
				panic("selector expected")
			}
			e = ESel{e, n.s}
		case p.isOp("["):
			p.next()
			var lo Expr
			if !p.isOp(":") {
				lo = p.expr()
			}
			if p.isOp(":") {
				p.next()
				var hi Expr
				if !p.isOp("]") {
					hi = p.expr()
				}
				if err := p.expectOp("]"); err != nil {
					panic(err)
				}
				e = ESlice{e, lo, hi}
			} else {
				if err := p.expectOp("]"); err != nil {
					panic(err)
				}
				e = EIndex{e, lo}
			}
		case p.isOp("("):
			id, ok := e.(EIdent)
			if !ok {
				panic("call of non-identifier")
			}
			p.next()
			var args []Expr
			for !p.isOp(")") {
				args = append(args, p.expr())
				if p.isOp(",") {
					p.next()
				}
			}
			p.next()
			e = ECall{id.Name, args}
		default:
			return e
		}
	}
}

func (p *eparser) primary() Expr {
	t := p.next()
	switch t.k {
	case "id":
		switch t.s {
		case "true":
			return EBool{true}
		case "false":
			return EBool{false}
		}
		return EIdent{t.s}
	case "int":
		return EInt{t.s}
	case "str":
		return EStr{t.s}
	case "op":
		if t.s == "(" {
			e := p.expr()
			if err := p.expectOp(")"); err != nil {
				panic(err)
			}
			return e
		}
	}
	panic(fmt.Sprintf("unexpected token %q", t.s))
}

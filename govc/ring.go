package main

// Ring normalisation of terms of the abstract field sort F.
//
// The SMT solvers are poor at associative-commutative reasoning, so the generator
// does it: every maximal F-algebraic subterm t of an asserted or to-be-proved formula
// gets a lemma  guards ==> t = NF(t)  where NF(t) is the canonical sum-of-monomials
// form of t after expanding the (guarded) definitions of named intermediate values.
// Each lemma is a consequence of the commutative-ring axioms and the definitions, so
// adding it is sound; the solver then only has to compare canonical forms and use
// hypotheses. For inverses, a division lemma  P = q*(D*I) + r  exposes the product
// D*I on which the field axiom D != 0 ==> D*finv(D) = 1 applies.

import (
	"fmt"
	"math/big"
	"sort"
	"strings"
)

type sx struct {
	atom string
	kids []*sx
}

func parseSx(s string) *sx {
	p := 0
	var rec func() *sx
	rec = func() *sx {
		for p < len(s) && s[p] == ' ' {
			p++
		}
		if p >= len(s) {
			return &sx{}
		}
		if s[p] == '(' {
			p++
			n := &sx{}
			for {
				for p < len(s) && s[p] == ' ' {
					p++
				}
				if p >= len(s) {
					return n
				}
				if s[p] == ')' {
					p++
					return n
				}
				n.kids = append(n.kids, rec())
			}
		}
		st := p
		for p < len(s) && s[p] != ' ' && s[p] != '(' && s[p] != ')' {
			p++
		}
		return &sx{atom: s[st:p]}
	}
	return rec()
}

func (n *sx) String() string {
	if n.kids == nil {
		return n.atom
	}
	parts := make([]string, len(n.kids))
	for i, k := range n.kids {
		parts[i] = k.String()
	}
	return "(" + strings.Join(parts, " ") + ")"
}

func (n *sx) head() string {
	if len(n.kids) > 0 && n.kids[0].kids == nil {
		return n.kids[0].atom
	}
	return ""
}

// poly: monomial key (sorted atom strings joined by \x01) -> coefficient
type poly map[string]*big.Int

func monoKey(atoms []string) string {
	sort.Strings(atoms)
	return strings.Join(atoms, "\x01")
}

func monoAtoms(k string) []string {
	if k == "" {
		return nil
	}
	return strings.Split(k, "\x01")
}

func pconst(n int64) poly {
	if n == 0 {
		return poly{}
	}
	return poly{"": big.NewInt(n)}
}

func patom(a string) poly { return poly{a: big.NewInt(1)} }

func padd(a, b poly) poly {
	r := poly{}
	for k, v := range a {
		r[k] = new(big.Int).Set(v)
	}
	for k, v := range b {
		if x, ok := r[k]; ok {
			x.Add(x, v)
			if x.Sign() == 0 {
				delete(r, k)
			}
		} else {
			r[k] = new(big.Int).Set(v)
		}
	}
	return r
}

func pneg(a poly) poly {
	r := poly{}
	for k, v := range a {
		r[k] = new(big.Int).Neg(v)
	}
	return r
}

func pmul(a, b poly) poly {
	r := poly{}
	for ka, va := range a {
		for kb, vb := range b {
			k := monoKey(append(monoAtoms(ka), monoAtoms(kb)...))
			c := new(big.Int).Mul(va, vb)
			if x, ok := r[k]; ok {
				x.Add(x, c)
				if x.Sign() == 0 {
					delete(r, k)
				}
			} else if c.Sign() != 0 {
				r[k] = c
			}
		}
	}
	return r
}

func (p poly) size() int { return len(p) }

type fdef struct {
	term  string
	guard string
}

type ringCtx struct {
	vc     *VC
	guards map[string]bool
	depth  int
	tooBig bool
	// F-sorted conditionals: with a choice for the condition the chosen branch is expanded under that
	// guard; without one the conditional is an atom and its condition is recorded in seen
	choice map[string]bool
	seen   map[string]bool
}

func isAlgHead(h string) bool {
	switch h {
	case "fadd", "fmul", "fneg", "fsub":
		return true
	}
	return false
}

// polyOf expands an F-term to its polynomial, collecting the guards of the definitions used.
func (rc *ringCtx) polyOf(n *sx) poly {
	if rc.tooBig {
		return poly{}
	}
	if n.kids == nil {
		switch n.atom {
		case "f0":
			return poly{}
		case "f1":
			return pconst(1)
		}
		if d, ok := rc.vc.fdefs[n.atom]; ok && rc.depth < 60 {
			rc.depth++
			if d.guard != "true" {
				rc.guards[d.guard] = true
			}
			p := rc.polyOf(parseSx(d.term))
			rc.depth--
			return p
		}
		return patom(n.atom)
	}
	var p poly
	switch n.head() {
	case "fadd":
		p = padd(rc.polyOf(n.kids[1]), rc.polyOf(n.kids[2]))
	case "fsub":
		p = padd(rc.polyOf(n.kids[1]), pneg(rc.polyOf(n.kids[2])))
	case "fneg":
		p = pneg(rc.polyOf(n.kids[1]))
	case "fmul":
		p = pmul(rc.polyOf(n.kids[1]), rc.polyOf(n.kids[2]))
	case "ite":
		if len(n.kids) == 4 {
			c := n.kids[1].String()
			if v, ok := rc.choice[c]; ok {
				if v {
					rc.guards[c] = true
					return rc.polyOf(n.kids[2])
				}
				rc.guards[sNot(c)] = true
				return rc.polyOf(n.kids[3])
			}
			if rc.seen != nil {
				rc.seen[c] = true
			}
		}
		return patom(rc.normAtom(n))
	case "ofInt":
		if len(n.kids) == 2 && n.kids[1].kids == nil {
			if v, ok := new(big.Int).SetString(n.kids[1].atom, 10); ok {
				if v.Sign() == 0 {
					return poly{}
				}
				return poly{"": v}
			}
		}
		return patom(n.String())
	default:
		// a cell of a zero-initialised row
		if n.head() == "select" && len(n.kids) == 3 && n.kids[1].String() == "((as const (Array Int F)) f0)" {
			return poly{}
		}
		// non-algebraic application: an atom whose F-arguments are themselves normalised
		a := rc.normAtom(n)
		if d, ok := rc.vc.fdefs[a]; ok && rc.depth < 60 {
			rc.depth++
			if d.guard != "true" {
				rc.guards[d.guard] = true
			}
			p := rc.polyOf(parseSx(d.term))
			rc.depth--
			return p
		}
		return patom(a)
	}
	if p.size() > 400 {
		rc.tooBig = true
	}
	return p
}

// normAtom prints a non-algebraic term with its algebraic sub-terms in normal form
func (rc *ringCtx) normAtom(n *sx) string {
	if n.kids == nil {
		// integer names bound to a term (slot arithmetic): print the definition, so that the same cell has
		// the same text wherever it is mentioned
		if d, ok := rc.vc.defOf[n.atom]; ok && rc.depth < 60 && rc.vc.declared[n.atom] == string(SInt) {
			rc.depth++
			r := rc.normAtom(parseSx(d))
			rc.depth--
			return r
		}
		return n.atom
	}
	h := n.head()
	if isAlgHead(h) {
		return polyTerm(rc.polyOf(n))
	}
	parts := make([]string, len(n.kids))
	for i, k := range n.kids {
		if i == 0 {
			parts[i] = k.String()
		} else {
			parts[i] = rc.normAtom(k)
		}
	}
	return "(" + strings.Join(parts, " ") + ")"
}

// polyTerm prints the canonical term of a polynomial
func polyTerm(p poly) string {
	if len(p) == 0 {
		return "f0"
	}
	keys := make([]string, 0, len(p))
	for k := range p {
		keys = append(keys, k)
	}
	sort.Strings(keys)
	var terms []string
	for _, k := range keys {
		c := p[k]
		atoms := monoAtoms(k)
		var prod string
		for i, a := range atoms {
			if i == 0 {
				prod = a
			} else {
				prod = app("fmul", prod, a)
			}
		}
		abs := new(big.Int).Abs(c)
		var t string
		switch {
		case prod == "" && abs.Cmp(big.NewInt(1)) == 0:
			t = "f1"
		case prod == "":
			t = app("ofInt", abs.String())
		case abs.Cmp(big.NewInt(1)) == 0:
			t = prod
		default:
			t = app("fmul", app("ofInt", abs.String()), prod)
		}
		if c.Sign() < 0 {
			t = app("fneg", t)
		}
		terms = append(terms, t)
	}
	out := terms[0]
	for _, t := range terms[1:] {
		out = app("fadd", out, t)
	}
	return out
}

// collectAlg finds the maximal F-algebraic subterms of a formula
func collectAlg(n *sx, vc *VC, out *[]*sx) {
	if n.kids == nil {
		if _, ok := vc.fdefs[n.atom]; ok {
			*out = append(*out, n)
		}
		return
	}
	h := n.head()
	if isAlgHead(h) {
		*out = append(*out, n)
		return
	}
	if h == "forall" || h == "exists" || h == "!" {
		// algebraic terms under binders may mention bound variables: skip (lemmas must be ground)
		return
	}
	for _, k := range n.kids[1:] {
		collectAlg(k, vc, out)
	}
	if n.kids[0].kids != nil {
		collectAlg(n.kids[0], vc, out)
	}
}

// ringLemmas emits normalisation lemmas for the algebraic terms of formula f.
func (vc *VC) ringLemmas(f string) {
	if !strings.Contains(f, "fadd") && !strings.Contains(f, "fmul") && !strings.Contains(f, "fneg") && !strings.Contains(f, "fsub") && !vc.mentionsDef(f) {
		return
	}
	root := parseSx(f)
	var ts []*sx
	collectAlg(root, vc, &ts)
	for _, t := range ts {
		s := t.String()
		if vc.ringDone[s] {
			continue
		}
		vc.ringDone[s] = true
		rc := &ringCtx{vc: vc, guards: map[string]bool{}, seen: map[string]bool{}}
		p := rc.polyOf(t)
		if rc.tooBig {
			continue
		}
		nf := polyTerm(p)
		vc.ringCases(t, s, rc.seen)
		if nf == s {
			continue
		}
		var gs []string
		for g := range rc.guards {
			gs = append(gs, g)
		}
		sort.Strings(gs)
		vc.emit(fmt.Sprintf("(assert %s) ; ring normal form", sImp(sAnd(gs...), sEq(s, nf))))
		vc.ringNF[s] = nf
		vc.inverseLemmas(p, nf, gs)
		vc.namedDivisionLemmas(p, nf, gs)
		vc.ruleLemmas(p, nf, gs)
	}
}

func (vc *VC) mentionsDef(f string) bool {
	for name := range vc.fdefs {
		if strings.Contains(f, name) {
			return true
		}
	}
	return false
}

// inverseLemmas: for every atom I = (finv D) of p, divide p by D*I:  p = q*(D*I) + r.
func (vc *VC) inverseLemmas(p poly, nf string, guards []string) {
	seen := map[string]bool{}
	for k := range p {
		for _, a := range monoAtoms(k) {
			if strings.HasPrefix(a, "(finv ") && !seen[a] {
				seen[a] = true
				dTerm := a[len("(finv ") : len(a)-1]
				rc := &ringCtx{vc: vc, guards: map[string]bool{}}
				d := rc.polyOf(parseSx(dTerm))
				if rc.tooBig || len(d) == 0 {
					continue
				}
				di := pmul(d, patom(a))
				q, r, ok := pdivide(p, di)
				if !ok || len(q) == 0 {
					continue
				}
				qt, rt := polyTerm(q), polyTerm(r)
				prod := app("fmul", dTerm, a)
				// p = q*(D*I) + r   (pure ring identity, by construction)
				vc.emit(fmt.Sprintf("(assert %s) ; division by D*finv(D)", sImp(sAnd(guards...), sEq(nf, app("fadd", app("fmul", qt, prod), rt)))))
				// q + r in normal form, for the case D*I = 1
				vc.emit(fmt.Sprintf("(assert (= %s %s)) ; ring normal form", app("fadd", qt, rt), polyTerm(padd(q, r))))
				vc.emit(fmt.Sprintf("(assert (= %s %s))", app("fmul", qt, "f1"), qt))
			}
		}
	}
}

// pdivide: multivariate division of p by a single polynomial g (lexicographic order on
// monomial keys by a fixed leading monomial of g). Returns q, r with p = q*g + r.
func pdivide(p, g poly) (q, r poly, ok bool) {
	// leading monomial of g: the one with most atoms, ties by key
	var lead string
	first := true
	for k := range g {
		if first || len(monoAtoms(k)) > len(monoAtoms(lead)) || (len(monoAtoms(k)) == len(monoAtoms(lead)) && k > lead) {
			lead = k
			first = false
		}
	}
	lc := g[lead]
	if new(big.Int).Abs(lc).Cmp(big.NewInt(1)) != 0 {
		return nil, nil, false // only monic (up to sign) divisors keep the coefficients integral
	}
	q, r = poly{}, poly{}
	work := padd(p, poly{})
	la := monoAtoms(lead)
	for steps := 0; len(work) > 0 && steps < 2000; steps++ {
		// pick a monomial of work divisible by lead
		found := ""
		var rest []string
		for k := range work {
			if rem, ok := monoDiv(monoAtoms(k), la); ok {
				found = k
				rest = rem
				break
			}
		}
		if found == "" {
			break
		}
		c := new(big.Int).Mul(work[found], lc) // lc = +-1 so c/lc = c*lc
		t := poly{monoKey(rest): c}
		q = padd(q, t)
		work = padd(work, pneg(pmul(t, g)))
	}
	r = work
	return q, r, true
}

func monoDiv(a, b []string) ([]string, bool) {
	cnt := map[string]int{}
	for _, x := range a {
		cnt[x]++
	}
	for _, x := range b {
		cnt[x]--
		if cnt[x] < 0 {
			return nil, false
		}
	}
	var rest []string
	for x, n := range cnt {
		for i := 0; i < n; i++ {
			rest = append(rest, x)
		}
	}
	sort.Strings(rest)
	return rest, true
}

// noteDefs records definitional equalities (= name term) of F-sorted fresh names found in an
// asserted formula (guard: the condition under which the formula is asserted).
func (vc *VC) noteDefs(f, guard string) {
	if !strings.Contains(f, "(= ") {
		return
	}
	root := parseSx(f)
	var walk func(n *sx)
	walk = func(n *sx) {
		if n.kids == nil {
			return
		}
		switch n.head() {
		case "and":
			for _, k := range n.kids[1:] {
				walk(k)
			}
		case "=>":
			if len(n.kids) == 3 {
				saved := guard
				guard = sAnd(guard, n.kids[1].String())
				walk(n.kids[2])
				guard = saved
			}
		case "=":
			if len(n.kids) == 3 {
				a, b := n.kids[1], n.kids[2]
				vc.noteRule(n.kids[1], n.kids[2], guard)
				if b.kids == nil && a.kids != nil {
					a, b = b, a
				}
				if a.kids == nil && vc.declared[a.atom] == string(SF) && vc.isFresh[a.atom] {
					if _, dup := vc.fdefs[a.atom]; !dup && !strings.Contains(b.String(), a.atom) {
						vc.fdefs[a.atom] = fdef{term: b.String(), guard: guard}
					}
					return
				}
				// a memory cell / other atom known to equal a constant (e.g. coefficient table entries 0, 1, 2, -1)
				for _, pr := range [][2]*sx{{n.kids[1], n.kids[2]}, {n.kids[2], n.kids[1]}} {
					at, ct := pr[0], pr[1]
					if at.kids == nil || isAlgHead(at.head()) || at.head() != "select" {
						continue
					}
					if !(ct.kids == nil && (ct.atom == "f0" || ct.atom == "f1") || ct.kids != nil && isAlgHead(ct.head())) {
						continue
					}
					rc := &ringCtx{vc: vc, guards: map[string]bool{}}
					cp := rc.polyOf(ct)
					constOnly := true
					for k := range cp {
						if k != "" {
							constOnly = false
						}
					}
					if constOnly && len(rc.guards) == 0 {
						key := rc.normAtom(at)
						if _, dup := vc.fdefs[key]; !dup {
							vc.fdefs[key] = fdef{term: polyTerm(cp), guard: guard}
						}
					}
					break
				}
			}
		}
	}
	walk(root)
}

// noteAtomDefs: a proved frame fact  P ==> (new-state atom == old-state atom) ...  lets later normal
// forms be computed over the old-state atoms (left side rewritten to right side, guarded).
func (vc *VC) noteAtomDefs(goal, reach string) {
	root := parseSx(goal)
	guard := reach
	if root.head() == "=>" && len(root.kids) == 3 {
		guard = sAnd(reach, root.kids[1].String())
		root = root.kids[2]
	}
	var walk func(n *sx)
	walk = func(n *sx) {
		if n.kids == nil {
			return
		}
		switch n.head() {
		case "and":
			for _, k := range n.kids[1:] {
				walk(k)
			}
		case "=":
			if len(n.kids) == 3 && n.kids[1].head() == "select" && n.kids[2].head() == "select" {
				rc := &ringCtx{vc: vc, guards: map[string]bool{}}
				key := rc.normAtom(n.kids[1])
				if _, dup := vc.fdefs[key]; !dup && key != n.kids[2].String() {
					vc.fdefs[key] = fdef{term: n.kids[2].String(), guard: guard}
				}
			}
		}
	}
	walk(root)
}

// namedDivisionLemmas: for every named intermediate value D with a small non-trivial definition,
// p = q*D + r (D kept as the name): lets the solver use hypotheses about D (D = f0, D != f0 ...).
func (vc *VC) namedDivisionLemmas(p poly, nf string, guards []string) {
	if len(p) < 2 {
		return
	}
	var names []string
	for name, d := range vc.fdefs {
		if vc.isFresh[name] && strings.HasPrefix(d.term, "(f") {
			names = append(names, name)
		}
	}
	sort.Strings(names)
	n := 0
	for _, name := range names {
		rc := &ringCtx{vc: vc, guards: map[string]bool{}}
		d := rc.polyOf(parseSx(name))
		if rc.tooBig || len(d) < 2 || len(d) > 6 {
			continue
		}
		q, r, ok := pdivide(p, d)
		if !ok || len(q) == 0 || len(r) >= len(p) {
			continue
		}
		var gs []string
		gs = append(gs, guards...)
		for g := range rc.guards {
			gs = append(gs, g)
		}
		sort.Strings(gs)
		qt, rt := polyTerm(q), polyTerm(r)
		vc.emit(fmt.Sprintf("(assert %s) ; division by the named value %s", sImp(sAnd(gs...), sEq(nf, app("fadd", app("fmul", qt, name), rt))), name))
		vc.emit(fmt.Sprintf("(assert (= %s %s))", app("fadd", "f0", rt), rt))
		n++
		if n > 6 {
			break
		}
	}
}

// ringCases: normal forms of a term under every choice of the (few) conditions of the F-sorted
// conditionals it reaches through definitions (denotations of frontend.Variable are conditionals on the
// dynamic type); each lemma is guarded by its choice.
func (vc *VC) ringCases(t *sx, s string, seen map[string]bool) {
	if len(seen) == 0 || len(seen) > 5 {
		return
	}
	var conds []string
	for c := range seen {
		conds = append(conds, c)
	}
	sort.Strings(conds)
	for mask := 0; mask < 1<<len(conds); mask++ {
		rc := &ringCtx{vc: vc, guards: map[string]bool{}, choice: map[string]bool{}, seen: map[string]bool{}}
		for i, c := range conds {
			rc.choice[c] = mask&(1<<i) != 0
		}
		p := rc.polyOf(t)
		if rc.tooBig {
			continue
		}
		nf := polyTerm(p)
		if nf == s {
			continue
		}
		var gs []string
		for g := range rc.guards {
			gs = append(gs, g)
		}
		sort.Strings(gs)
		vc.emit(fmt.Sprintf("(assert %s) ; ring normal form by cases", sImp(sAnd(gs...), sEq(s, nf))))
		vc.ruleLemmas(p, nf, gs)
	}
}

// ---------------------------------------------------------------------------
// known polynomial equalities as division rules: an asserted equality A = B between products/sums (a
// callee's postcondition such as r*x = 1, a gate) gives the polynomial D = A - B = 0; a later term whose
// polynomial is q*D + r then equals r. Both steps are ring identities; the solver only has to use D = 0.

type ringRule struct {
	d      poly
	dTerm  string
	guards []string
}

func fAlg(n *sx) bool {
	if n.kids == nil {
		return n.atom == "f0" || n.atom == "f1"
	}
	return isAlgHead(n.head())
}

func (vc *VC) noteRule(a, b *sx, guard string) {
	if !(fAlg(a) || fAlg(b)) || len(vc.rules) > 40 {
		return
	}
	for _, x := range []*sx{a, b} {
		if x.kids == nil && vc.isFresh[x.atom] {
			return // a definition of a name, not a fact
		}
	}
	// at least one side must be a product or sum (definitions of names are handled by fdefs)
	if !(a.kids != nil && (a.head() == "fmul" || a.head() == "fadd" || a.head() == "fsub")) && !(b.kids != nil && (b.head() == "fmul" || b.head() == "fadd" || b.head() == "fsub")) {
		return
	}
	key := a.String() + "=" + b.String()
	if vc.ruleSeen == nil {
		vc.ruleSeen = map[string]bool{}
	}
	if vc.ruleSeen[key] {
		return
	}
	vc.ruleSeen[key] = true
	add := func(choice map[string]bool) map[string]bool {
		rc := &ringCtx{vc: vc, guards: map[string]bool{}, choice: choice, seen: map[string]bool{}}
		d := padd(rc.polyOf(a), pneg(rc.polyOf(b)))
		if rc.tooBig || len(d) < 2 || len(d) > 8 {
			return rc.seen
		}
		var gs []string
		if guard != "true" && guard != "" {
			gs = append(gs, guard)
		}
		for g := range rc.guards {
			gs = append(gs, g)
		}
		sort.Strings(gs)
		dt := polyTerm(d)
		// D = 0 is a ring consequence of A = B
		vc.emit(fmt.Sprintf("(assert %s) ; polynomial of a known equality", sImp(sAnd(append(gs, sEq(a.String(), b.String()))...), sEq(dt, "f0"))))
		vc.rules = append(vc.rules, ringRule{d: d, dTerm: dt, guards: gs})
		return rc.seen
	}
	seen := add(map[string]bool{})
	if len(seen) > 0 && len(seen) <= 3 {
		var conds []string
		for c := range seen {
			conds = append(conds, c)
		}
		sort.Strings(conds)
		for mask := 0; mask < 1<<len(conds); mask++ {
			ch := map[string]bool{}
			for i, c := range conds {
				ch[c] = mask&(1<<i) != 0
			}
			add(ch)
		}
	}
}

type normTerm struct {
	p      poly
	nf     string
	guards []string
}

// sweepRules applies the rules found so far to every term normalised so far (a rule may be learnt after
// the term it rewrites was first seen, e.g. a lemma instance stated at entry and a gate emitted later)
func (vc *VC) sweepRules() {
	if len(vc.rules) == vc.rulesSwept && len(vc.normTerms) == vc.termsSwept {
		return
	}
	vc.rulesSwept, vc.termsSwept = len(vc.rules), len(vc.normTerms)
	vc.sweeping = true
	for _, t := range vc.normTerms {
		vc.ruleLemmas(t.p, t.nf, t.guards)
	}
	vc.sweeping = false
}

func (vc *VC) ruleLemmas(p poly, nf string, guards []string) {
	if len(p) == 0 {
		return
	}
	if !vc.sweeping && len(vc.normTerms) < 300 {
		vc.normTerms = append(vc.normTerms, normTerm{p, nf, guards})
	}
	n := 0
	for _, r := range vc.rules {
		q, rem, ok := pdivide(p, r.d)
		if !ok || len(q) == 0 || len(rem) > len(p) {
			continue
		}
		gs := append(append([]string{}, guards...), r.guards...)
		sort.Strings(gs)
		qt, rt := polyTerm(q), polyTerm(rem)
		key := nf + "/" + r.dTerm
		if vc.ruleSeen[key] {
			continue
		}
		vc.ruleSeen[key] = true
		vc.emit(fmt.Sprintf("(assert %s) ; division by a known equality", sImp(sAnd(gs...), sEq(nf, app("fadd", app("fmul", qt, r.dTerm), rt)))))
		vc.emit(fmt.Sprintf("(assert (= %s %s))", app("fadd", "f0", rt), rt))
		n++
		if n > 8 {
			break
		}
	}
}

package main

import (
	"os"
	"fmt"
	"go/token"
	"go/types"
	"strings"

	"golang.org/x/tools/go/ssa"
)

// packages whose functions are assumed not to modify memory reachable from
// their arguments (logging, formatting, time): listed in the evidence.
var effectFree = []string{"fmt", "errors", "strings", "strconv", "time", "math", "math/bits", "unicode", "unicode/utf8", "runtime/debug", "runtime",
	"github.com/rs/zerolog", "github.com/consensys/gnark/logger", "github.com/consensys/gnark/debug", "reflect", "os", "log", "path/filepath",
	"github.com/consensys/gnark/internal/utils.FromInterface", "github.com/consensys/gnark/profile"}

func isEffectFree(pkgPath string) bool {
	for _, p := range effectFree {
		if pkgPath == p || strings.HasPrefix(pkgPath, p+"/") {
			return true
		}
	}
	return false
}

func calleePkgPath(fn *ssa.Function) string {
	if fn.Pkg != nil {
		return fn.Pkg.Pkg.Path()
	}
	if fn.Object() != nil && fn.Object().Pkg() != nil {
		return fn.Object().Pkg().Path()
	}
	if fn.Parent() != nil {
		return calleePkgPath(fn.Parent())
	}
	if o := fn.Origin(); o != nil && o != fn {
		return calleePkgPath(o)
	}
	return ""
}

type callTarget struct {
	fn      *ssa.Function
	clos    *closureInfo
	method  *types.Func // invoke
	recvT   types.Type
	name    string
	sig     *types.Signature
	self    []string // dynamic call through a value of a named function type: the value
	selfT   types.Type
}

func (fr *Frame) resolveCall(c *ssa.CallCommon) callTarget {
	if c.IsInvoke() {
		name := "(" + typeString(c.Value.Type()) + ")." + c.Method.Name()
		return callTarget{method: c.Method, recvT: c.Value.Type(), name: name, sig: c.Method.Type().(*types.Signature)}
	}
	if ci := fr.closureOf(c.Value); ci != nil {
		return callTarget{fn: ci.fn, clos: ci, name: ci.fn.String(), sig: ci.fn.Signature}
	}
	if fn := c.StaticCallee(); fn != nil {
		return callTarget{fn: fn, name: fn.String(), sig: fn.Signature}
	}
	if n, ok := types.Unalias(c.Value.Type()).(*types.Named); ok {
		if _, isSig := n.Underlying().(*types.Signature); isSig {
			return callTarget{name: "functype " + typeFullName(n), sig: c.Signature(), self: fr.val(c.Value), selfT: c.Value.Type()}
		}
	}
	return callTarget{name: "dynamic call", sig: c.Signature()}
}

func (fr *Frame) closureOf(v ssa.Value) *closureInfo {
	for f := fr; f != nil; f = f.parent {
		if ci, ok := f.clos[v]; ok {
			return ci
		}
	}
	return nil
}

func typeString(t types.Type) string {
	return types.TypeString(t, nil)
}

func (fr *Frame) execCall(v *ssa.Call, c *ssa.CallCommon, st *State, r string) {
	var resT types.Type
	if v != nil {
		resT = v.Type()
	} else {
		resT = c.Signature().Results()
	}
	setRes := func(comps []string) {
		if v != nil {
			fr.regs[v] = comps
		}
	}
	if b, ok := c.Value.(*ssa.Builtin); ok {
		setRes(fr.execBuiltin(b, c, resT, st, r, v))
		return
	}
	tgt := fr.resolveCall(c)
	var args [][]string
	var argT []types.Type
	if c.IsInvoke() {
		args = append(args, fr.val(c.Value))
		argT = append(argT, c.Value.Type())
		if _, isIface := c.Value.Type().Underlying().(*types.Interface); isIface && len(args[0]) == 2 {
			if _, isTP := types.Unalias(c.Value.Type()).(*types.TypeParam); !isTP {
				fr.safetyObl("nil", r, sNot(sEq(args[0][0], "0")), c.Pos(), "method call on nil interface")
			}
		}
	}
	for _, a := range c.Args {
		args = append(args, fr.val(a))
		argT = append(argT, a.Type())
	}
	res := fr.callTarget(tgt, args, argT, resT, st, r, c.Pos(), c)
	setRes(res)
}

// callTarget applies the modular call rule.
func (fr *Frame) callTarget(tgt callTarget, args [][]string, argT []types.Type, resT types.Type, st *State, r string, pos token.Pos, c *ssa.CallCommon) []string {
	vc := fr.vc
	eng := fr.eng
	// contract lookup
	var con *Contract
	keys := []string{tgt.name}
	if tgt.method != nil {
		keys = append(keys, tgt.method.FullName())
	}
	if tgt.fn != nil {
		if o := tgt.fn.Origin(); o != nil {
			keys = append(keys, o.String())
		}
	}
	for _, k := range keys {
		if con = eng.cs.lookup(k); con != nil {
			break
		}
	}
	if con != nil && !con.Inline {
		return fr.applyContract(con, tgt, args, argT, resT, st, r, pos)
	}
	// inline small same-module functions
	if tgt.fn != nil && len(tgt.fn.Blocks) > 0 && (fr.canInline(tgt.fn) || (con != nil && con.Inline && fr.depth < 4)) {
		return fr.inline(tgt, args, resT, st, r, pos, con)
	}
	// unknown callee
	res := fr.freshVal("call", resT)
	path := ""
	if tgt.fn != nil {
		path = calleePkgPath(tgt.fn)
	} else if tgt.method != nil && tgt.method.Pkg() != nil {
		path = tgt.method.Pkg().Path()
	}
	short := tgt.name
	switch {
	case isEffectFree(path) || (tgt.fn != nil && isEffectFree(path+"."+tgt.fn.Name())):
		vc.assumptions["calls into logging/formatting/time packages are effect-free: "+path] = true
		if tgt.fn != nil && (path == "fmt" && tgt.fn.Name() == "Errorf" || path == "errors" && tgt.fn.Name() == "New") {
			vc.assert(sImp(r, sNot(sEq(res[0], "0"))))
		}
	case tgt.fn != nil && len(tgt.fn.Blocks) == 0 && !strings.HasPrefix(path+"/", modPrefix) || tgt.method != nil || tgt.fn == nil:
		// external function (no body loaded), interface method or dynamic call:
		// may modify the direct referents of pointer / slice arguments and of its receiver only
		vc.unmodelled["no contract for "+short+": result unconstrained, direct referents of pointer/slice arguments havocked"] = true
		fr.havocShallow(args, argT, st)
	default:
		vc.unmodelled["no contract for in-module callee "+short+" (not inlinable): all memory havocked"] = true
		vc.havocAll(st, fr.allProtected())
		nb := vc.fresh("brk_call", SInt)
		vc.assert(app(">=", nb, st.brk))
		st.brk = nb
	}
	nb := vc.fresh("brk_call", SInt)
	vc.assert(app(">=", nb, st.brk))
	st.brk = nb
	fr.assumeTypeFacts(r, resT, res, st)
	return res
}

func (fr *Frame) allProtected() []string {
	var out []string
	for f := fr; f != nil; f = f.parent {
		out = append(out, f.protected...)
	}
	return out
}

func (fr *Frame) havocShallow(args [][]string, argT []types.Type, st *State) {
	vc := fr.vc
	for i, t := range argT {
		var elem types.Type
		switch tt := types.Unalias(t).Underlying().(type) {
		case *types.Pointer:
			elem = tt.Elem()
		case *types.Slice:
			elem = tt.Elem()
		default:
			continue
		}
		if arr, ok := elem.Underlying().(*types.Array); ok && !fr.l().flatOK(elem) {
			elem = arr.Elem()
		}
		if !fr.l().flatOK(elem) {
			continue
		}
		seen := map[Sort]bool{}
		for _, s := range fr.l().layout(elem) {
			if seen[s] {
				continue
			}
			seen[s] = true
			row := vc.freshRaw("row_"+string(s), "(Array Int "+string(s)+")")
			vc.setRow(st, s, args[i][0], row)
		}
	}
}

func (fr *Frame) canInline(fn *ssa.Function) bool {
	if fr.depth >= 3 {
		return false
	}
	for f := fr; f != nil; f = f.parent {
		if f.fn == fn {
			return false
		}
	}
	if fn.Recover != nil {
		return false
	}
	n := 0
	for _, b := range fn.Blocks {
		n += len(b.Instrs)
	}
	return n <= 250
}

func (fr *Frame) inline(tgt callTarget, args [][]string, resT types.Type, st *State, r string, pos token.Pos, con *Contract) []string {
	vc := fr.vc
	sub := &Frame{vc: vc, eng: fr.eng, fn: tgt.fn, depth: fr.depth + 1, parent: fr, regs: map[ssa.Value][]string{}, clos: map[ssa.Value]*closureInfo{},
		safety: fr.safety, safetyProps: fr.safetyProps, mode: fr.mode,
		suffix: fr.suffix + "@" + shortFuncName(tgt.fn)}
	if con != nil && con.Inline {
		// an `inline` contract carries the loop invariants (and loop lemmas) of the inlined body
		sub.con = con
	}
	sub.entry = st.clone()
	sub.params = args
	for i, p := range tgt.fn.Params {
		if i < len(args) {
			sub.regs[p] = args[i]
		}
	}
	if tgt.clos != nil {
		sub.free = tgt.clos.bindings
	}
	sub.run(r)
	if sub.unsupported != "" {
		vc.unmodelled["callee "+tgt.name+" not inlinable ("+sub.unsupported+"): all memory havocked"] = true
		vc.havocAll(st, fr.allProtected())
		res := fr.freshVal("call", resT)
		fr.assumeTypeFacts(r, resT, res, st)
		return res
	}
	// merge returns
	if len(sub.rets) == 0 {
		// never returns (always panics): the continuation is unreachable
		vc.assert(sNot(r))
		return fr.freshVal("call", resT)
	}
	var edges []string
	var sts []*State
	for i := range sub.rets {
		edges = append(edges, sub.rets[i].reach)
		sts = append(sts, &sub.rets[i].st)
	}
	// on the caller's path exactly the returning executions continue
	vc.assert(sImp(r, sOr(edges...)))
	ns := fr.mergeStates(edges, sts, "ret_"+shortFuncName(tgt.fn))
	*st = ns
	if len(sub.rets) == 1 {
		return sub.rets[0].vals
	}
	res := fr.freshVal("ret", resT)
	for _, rt := range sub.rets {
		var eqs []string
		for k := range res {
			if k < len(rt.vals) {
				eqs = append(eqs, sEq(res[k], rt.vals[k]))
			}
		}
		vc.assert(sImp(rt.reach, sAnd(eqs...)))
	}
	return res
}

func shortFuncName(fn *ssa.Function) string {
	s := fn.String()
	s = strings.ReplaceAll(s, modPrefix, "")
	if i := strings.LastIndex(s, "/"); i >= 0 {
		s = s[i+1:]
	}
	return s
}

// paramNames/types of a call target as the contract sees them (receiver first)
func targetParams(tgt callTarget) (names []string, ts []types.Type) {
	sig := tgt.sig
	if tgt.method != nil {
		names = append(names, "recv")
		ts = append(ts, tgt.recvT)
	} else if sig.Recv() != nil {
		n := sig.Recv().Name()
		if n == "" || n == "_" {
			n = "recv"
		}
		names = append(names, n)
		ts = append(ts, sig.Recv().Type())
	}
	for i := 0; i < sig.Params().Len(); i++ {
		p := sig.Params().At(i)
		n := p.Name()
		if n == "" || n == "_" {
			n = fmt.Sprintf("arg%d", i)
		}
		names = append(names, n)
		ts = append(ts, p.Type())
	}
	return
}

func (fr *Frame) contractEnv(con *Contract, tgt callTarget, args [][]string, argT []types.Type, st *State, old *State) *Env {
	env := &Env{fr: fr, st: st, old: old, vars: map[string]tval{}}
	if tgt.fn != nil {
		p := tgt.fn
		for p.Parent() != nil {
			p = p.Parent()
		}
		if p.Pkg != nil {
			env.pkg = p.Pkg.Pkg
		} else if p.Object() != nil {
			env.pkg = p.Object().Pkg()
		}
	} else if tgt.method != nil {
		env.pkg = tgt.method.Pkg()
	}
	if tgt.self != nil {
		env.vars["self"] = tval{T: tgt.selfT, C: tgt.self}
		if n, ok := types.Unalias(tgt.selfT).(*types.Named); ok && n.Obj().Pkg() != nil {
			env.pkg = n.Obj().Pkg()
		}
	}
	names, ts := targetParams(tgt)
	for i, n := range names {
		if i < len(args) {
			t := ts[i]
			if i < len(argT) && argT[i] != nil && tgt.method == nil {
				// keep the declared parameter type (generic bodies: type parameters)
			}
			env.vars[n] = tval{T: t, C: args[i]}
			if i == 0 && (tgt.method != nil || tgt.sig.Recv() != nil) {
				env.vars["recv"] = tval{T: t, C: args[i]}
			}
		}
	}
	// closures: free variables by name
	if tgt.clos != nil {
		for i, fv := range tgt.fn.FreeVars {
			if i < len(tgt.clos.bindings) {
				if et, ok := deref(fv.Type()); ok {
					b := tgt.clos.bindings[i]
					env.vars["&"+fv.Name()] = tval{T: fv.Type(), C: b}
					_ = et
				}
			}
		}
	}
	return env
}

func (fr *Frame) applyContract(con *Contract, tgt callTarget, args [][]string, argT []types.Type, resT types.Type, st *State, r string, pos token.Pos) []string {
	vc := fr.vc
	pre := st.clone()
	env := fr.contractEnv(con, tgt, args, argT, st, &pre)
	short := shortName(tgt.name)
	if con.Trusted != "" || tgt.fn == nil || len(tgt.fn.Blocks) == 0 {
		vc.assumptions["assumed contract of "+short+" ("+con.File+")"] = true
	}
	// preconditions
	for i, c := range con.Requires {
		g, err := env.evalBool(c.E)
		if err != nil {
			fr.contractError(fmt.Sprintf("requires of %s: %v", short, err))
			continue
		}
		lab := c.Label
		if lab == "" {
			lab = fmt.Sprintf("%d", i)
		}
		if strings.HasPrefix(c.Label, "deferred") {
			// a fact about the fixed satisfying assignment (soundness mode) that constraints emitted later in
			// the same function may establish: proved at every return of the function under verification
			top := fr
			for top.parent != nil {
				top = top.parent
			}
			top.deferredPre = append(top.deferredPre, deferredPre{goal: g, reach: r, pos: fr.pos(pos), props: fr.propsFor(c.Props),
				text: "precondition of " + short + " (to hold when the function returns): " + c.Text + "  at " + fr.srcLine(pos), name: "pre-deferred(" + short + ")" + fr.suffix})
			continue
		}
		vc.oblig("pre("+short+")"+fr.suffix, "", r, g, fr.pos(pos), fr.propsFor(c.Props), "precondition of "+short+": "+c.Text+"  at "+fr.srcLine(pos))
	}
	// gadget mode: constraint clauses are obligations in completeness mode
	if fr.mode == "completeness" {
		for _, c := range con.Constraint {
			g, err := env.evalBool(c.E)
			if err != nil {
				fr.contractError(fmt.Sprintf("constraint of %s: %v", short, err))
				continue
			}
			vc.oblig("constraint("+short+")"+fr.suffix, "", r, g, fr.pos(pos), fr.propsFor(c.Props), "constraint emitted by "+short+" is satisfied: "+c.Text+"  at "+fr.srcLine(pos))
		}
	}
	// frame
	if !con.HasAssigns && !con.Pure {
		// default frame for a contract without an assigns clause: direct referents of pointer/slice arguments
		fr.havocShallow(args, argT, st)
	}
	for _, a := range con.Assigns {
		if err := fr.havocTarget(env, a.E, st); err != nil {
			fr.contractError(fmt.Sprintf("assigns of %s: %v", short, err))
		}
	}
	nb := vc.fresh("brk_call", SInt)
	vc.assert(app(">=", nb, st.brk))
	st.brk = nb
	// results (a postcondition `result == <parameter>` makes the result that very argument, syntactically)
	res := fr.freshVal("res_"+short, resT)
	if alias := resultAlias(con); alias != "" {
		if v, ok := env.vars[alias]; ok && len(v.C) == len(res) {
			res = v.C
		}
	}
	fr.assumeTypeFacts(r, resT, res, st)
	env.st = st
	env.result = splitResults(fr.l(), resT, res)
	if tgt.sig != nil {
		for i := 0; i < tgt.sig.Results().Len(); i++ {
			env.resNames = append(env.resNames, tgt.sig.Results().At(i).Name())
		}
	}
	for _, c := range con.Ensures {
		g, err := env.evalBool(c.E)
		if err != nil {
			if strings.Contains(err.Error(), "unresolved name") && calleeHasLocal(tgt.fn, err.Error()) {
				// a clause about the callee's own locals (checked when the callee is verified): not usable here
				if os.Getenv("GOVC_DEBUG") != "" {
					fmt.Fprintf(os.Stderr, "ensures of %s skipped at call site: %v\n", short, err)
				}
				continue
			}
			fr.contractError(fmt.Sprintf("ensures of %s: %v", short, err))
			continue
		}
		vc.assert(sImp(r, g))
	}
	if fr.mode != "completeness" {
		for _, c := range con.Constraint {
			g, err := env.evalBool(c.E)
			if err != nil {
				fr.contractError(fmt.Sprintf("constraint of %s: %v", short, err))
				continue
			}
			vc.assumptions["assumed effect clause of "+short+" (not checked against its body): "+c.Text] = true
			vc.assert(sImp(r, g))
		}
	} else {
		for _, c := range con.Hint {
			g, err := env.evalBool(c.E)
			if err != nil {
				fr.contractError(fmt.Sprintf("hint clause of %s: %v", short, err))
				continue
			}
			vc.assert(sImp(r, g))
		}
	}
	return res
}

func (fr *Frame) propsFor(p []string) []string {
	if len(p) > 0 {
		return p
	}
	return fr.safetyProps
}

func splitResults(l *Layouter, resT types.Type, res []string) []tval {
	if tup, ok := resT.(*types.Tuple); ok {
		var out []tval
		off := 0
		for i := 0; i < tup.Len(); i++ {
			n := l.sizeOf(tup.At(i).Type())
			if off+n <= len(res) {
				out = append(out, tval{T: tup.At(i).Type(), C: res[off : off+n]})
			}
			off += n
		}
		return out
	}
	if resT == nil {
		return nil
	}
	return []tval{{T: resT, C: res}}
}

func shortName(s string) string {
	s = strings.ReplaceAll(s, modPrefix, "")
	s = strings.ReplaceAll(s, "github.com/consensys/gnark-crypto/", "")
	return s
}

// havocTarget: assigns clause element. `*p` (object behind a pointer), `s[..]`
// (all elements of a slice), `p.f` (one field), `x` naming a local cell.
func (fr *Frame) havocTarget(env *Env, e Expr, st *State) error {
	vc := fr.vc
	// whole rows: *p and s[..] / s
	switch x := e.(type) {
	case EUn:
		if x.Op == "*" {
			v, err := env.eval(x.X)
			if err != nil {
				return err
			}
			if isIfaceT(v.T) {
				// the object behind an interface value: opaque to the typed memory (its abstract state, if any,
				// is ghost state named separately); the frame check accounts for the write
				return nil
			}
			if _, isMap := v.T.Underlying().(*types.Map); isMap {
				fr.vc.unmodelled["assigns *m for a map m: map contents are not tracked across this call"] = true
				return nil
			}
			et, ok := deref(v.T)
			if !ok {
				return fmt.Errorf("assigns *x: x is not a pointer")
			}
			fr.havocRange(st, v.C, et)
			return nil
		}
	case ESlice, EIdent:
		v, err := env.eval(e)
		if err != nil {
			return err
		}
		if sl, ok := v.T.Underlying().(*types.Slice); ok {
			if !fr.l().flatOK(sl.Elem()) {
				return fmt.Errorf("assigns: element type too large")
			}
			seen := map[Sort]bool{}
			for _, s := range fr.l().layout(sl.Elem()) {
				if seen[s] {
					continue
				}
				seen[s] = true
				row := vc.freshRaw("row_"+string(s), "(Array Int "+string(s)+")")
				w := fr.l().sizeOf(sl.Elem())
				lo := v.C[1]
				hi := sAdd(v.C[1], sMulC(v.C[2], int64(w)))
				old := vc.rowOf(st, s, v.C[0])
				vc.assert(fmt.Sprintf("(forall ((q Int)) (! (=> (or (< q %s) (>= q %s)) (= (select %s q) (select %s q))) :pattern ((select %s q))))", lo, hi, row, old, row))
				vc.setRow(st, s, v.C[0], row)
			}
			return nil
		}
		if isIfaceT(v.T) && v.Addr == nil {
			// the object behind an interface value (e.g. the circuit builder behind frontend.API): its state is
			// opaque to the typed memory, nothing to havoc; the frame check (frames.go) accounts for the writes
			return nil
		}
		if v.Addr != nil {
			fr.havocRange(st, v.Addr, v.T)
			return nil
		}
		return fmt.Errorf("assigns target is not a location")
	case ESel, EIndex:
		v, err := env.eval(e)
		if err != nil {
			return err
		}
		if v.Addr == nil {
			return fmt.Errorf("assigns target is not addressable")
		}
		fr.havocRange(st, v.Addr, v.T)
		return nil
	case ECall:
		if x.Fun == "spare" && len(x.Args) == 1 {
			// spare(s): the cells between len(s) and cap(s) of s's backing array (what an append in place writes);
			// the elements of s itself are untouched
			v, err := env.eval(x.Args[0])
			if err != nil {
				return err
			}
			sl, ok := v.T.Underlying().(*types.Slice)
			if !ok || !fr.l().flatOK(sl.Elem()) {
				return fmt.Errorf("assigns spare(x): x is not a slice of flat elements")
			}
			seen := map[Sort]bool{}
			for _, s := range fr.l().layout(sl.Elem()) {
				if seen[s] {
					continue
				}
				seen[s] = true
				row := vc.freshRaw("row_"+string(s), "(Array Int "+string(s)+")")
				w := fr.l().sizeOf(sl.Elem())
				lo := sAdd(v.C[1], sMulC(v.C[2], int64(w)))
				hi := sAdd(v.C[1], sMulC(v.C[3], int64(w)))
				old := vc.rowOf(st, s, v.C[0])
				vc.assert(fmt.Sprintf("(forall ((q Int)) (! (=> (or (< q %s) (>= q %s)) (= (select %s q) (select %s q))) :pattern ((select %s q))))", lo, hi, row, old, row))
				vc.setRow(st, s, v.C[0], row)
			}
			return nil
		}
		if x.Fun == "deep" {
			// deep(x): objects reachable through the values x holds (e.g. the linear expressions boxed in a
			// slice of Variables), not x's own cells: nothing to havoc in the typed memory, where such boxes
			// are immutable values; the frame check accounts for the write through x
			fr.vc.assumptions["assigns deep(x): the callee may reorder/modify objects held by x's elements without changing what the contracts' spec functions read from them"] = true
			return nil
		}
		if gs, ok := fr.eng.cs.Ghosts[x.Fun]; ok && len(x.Args) == 1 {
			// whole ghost row of the object
			o, err := env.eval(x.Args[0])
			if err != nil {
				return err
			}
			rt := fr.l().specType(gs)
			srt := Sort(string(fr.l().layout(rt)[0]) + "#" + x.Fun)
			key := o.C[0]
			if isIfaceT(o.T) && len(o.C) == 2 {
				key = o.C[1]
			}
			row := vc.freshRaw("row_"+x.Fun, "(Array Int "+srt.elem()+")")
			vc.setRow(st, srt, key, row)
			return nil
		}
		if gs, ok := fr.eng.cs.Ghosts[x.Fun]; ok {
			key, idx, srt, _, err := env.ghostLoc(x, gs)
			if err != nil {
				return err
			}
			nv := vc.fresh("ghost_"+x.Fun, Sort(srt.elem()))
			vc.storeComp(st, srt, key, idx, nv)
			return nil
		}
	}
	return fmt.Errorf("unsupported assigns target")
}

// havocRange replaces the slots of one object of type t at addr by unknown values
func (fr *Frame) havocRange(st *State, addr []string, t types.Type) {
	if !fr.l().flatOK(t) {
		// whole row
		if arr, ok := t.Underlying().(*types.Array); ok && fr.l().flatOK(arr.Elem()) {
			for _, s := range fr.l().layout(arr.Elem()) {
				row := fr.vc.freshRaw("row_"+string(s), "(Array Int "+string(s)+")")
				fr.vc.setRow(st, s, addr[0], row)
			}
		}
		return
	}
	v := fr.freshVal("havoc", t)
	fr.store(st, addr, t, v)
	fr.assumeTypeFacts("true", t, v, st)
}

// ---------------------------------------------------------------------------
// loop write sets of calls

func (fr *Frame) callWriteSet(ws *writeSet, li *loopInfo, ci ssa.CallInstruction) {
	c := ci.Common()
	if b, ok := c.Value.(*ssa.Builtin); ok {
		switch b.Name() {
		case "append":
			ws.allocs = true
			sl := c.Args[0].Type().Underlying().(*types.Slice)
			fr.addWrite(ws, li, c.Args[0], sl.Elem())
		case "copy":
			sl := c.Args[0].Type().Underlying().(*types.Slice)
			fr.addWrite(ws, li, c.Args[0], sl.Elem())
		case "delete", "clear":
			ws.sorts["Map"] = true
		}
		return
	}
	if _, isGo := ci.(*ssa.Go); isGo {
		ws.all = true
		return
	}
	tgt := fr.resolveCall(c)
	var con *Contract
	keys := []string{tgt.name}
	if tgt.method != nil {
		keys = append(keys, tgt.method.FullName())
	}
	for _, k := range keys {
		if con = fr.eng.cs.lookup(k); con != nil {
			break
		}
	}
	path := ""
	if tgt.fn != nil {
		path = calleePkgPath(tgt.fn)
	} else if tgt.method != nil && tgt.method.Pkg() != nil {
		path = tgt.method.Pkg().Path()
	}
	ws.allocs = true
	shallow := func() {
		var all []ssa.Value
		if c.IsInvoke() {
			all = append(all, c.Value)
		}
		all = append(all, c.Args...)
		for _, a := range all {
			switch tt := types.Unalias(a.Type()).Underlying().(type) {
			case *types.Pointer:
				el := tt.Elem()
				if arr, ok := el.Underlying().(*types.Array); ok && !fr.l().flatOK(el) {
					el = arr.Elem()
				}
				fr.addWrite(ws, li, a, el)
			case *types.Slice:
				fr.addWrite(ws, li, a, tt.Elem())
			}
		}
	}
	switch {
	case con != nil && !con.Inline:
		if con.Pure || (con.HasAssigns && len(con.Assigns) == 0) {
			return
		}
		if !con.HasAssigns {
			shallow()
			return
		}
		// explicit assigns: map each target onto the actual argument it names
		names, _ := targetParams(tgt)
		var all []ssa.Value
		if c.IsInvoke() {
			all = append(all, c.Value)
		}
		all = append(all, c.Args...)
		for _, a := range con.Assigns {
			if gc, ok := a.E.(ECall); ok {
				if gs, isGhost := fr.eng.cs.Ghosts[gc.Fun]; isGhost {
					// ghost channel write: the whole row of the object (first argument) if it is loop invariant
					rt := fr.l().specType(gs)
					srt := Sort(string(fr.l().layout(rt)[0]) + "#" + gc.Fun)
					done := false
					if id, ok := gc.Args[0].(EIdent); ok {
						for i, n := range names {
							if (n == id.Name || (id.Name == "recv" && i == 0)) && i < len(all) && fr.definedOutside(fr.rootOf(all[i]), li) {
								if _, have := fr.regs[fr.rootOf(all[i])]; have || isConstLike(fr.rootOf(all[i])) {
									v := fr.val(all[i])
									key := v[0]
									if isIfaceT(all[i].Type()) && len(v) == 2 {
										key = v[1]
									}
									ws.rows[srt] = append(ws.rows[srt], key)
									done = true
								}
							}
						}
					}
					if !done {
						ws.sorts[srt] = true
					}
					continue
				}
			}
			base := baseIdent(a.E)
			found := false
			for i, n := range names {
				if (n == base || (base == "recv" && i == 0)) && i < len(all) {
					found = true
					switch tt := types.Unalias(all[i].Type()).Underlying().(type) {
					case *types.Pointer:
						// conservatively the whole object behind the pointer (and one more level for fields that are slices)
						el := tt.Elem()
						if fr.l().flatOK(el) {
							fr.addWrite(ws, li, all[i], el)
						} else {
							ws.all = true
						}
						if _, isSel := a.E.(ESel); isSel {
							// field written may itself be a slice whose elements change: unknown rows
							if st, ok := el.Underlying().(*types.Struct); ok {
								_ = st
							}
						}
					case *types.Slice:
						fr.addWrite(ws, li, all[i], tt.Elem())
					default:
						ws.all = true
					}
				}
			}
			if !found {
				ws.all = true
			}
		}
	case tgt.fn != nil && len(tgt.fn.Blocks) > 0 && fr.canInline(tgt.fn):
		// inlined body: its stores through parameters map to the arguments; be conservative
		fr.inlineWriteSet(ws, li, tgt.fn, c, 0)
	case isEffectFree(path):
	case tgt.fn != nil && len(tgt.fn.Blocks) == 0 && !strings.HasPrefix(path+"/", modPrefix) || tgt.method != nil || tgt.fn == nil:
		shallow()
	default:
		ws.all = true
	}
}

func baseIdent(e Expr) string {
	for {
		switch x := e.(type) {
		case EIdent:
			return x.Name
		case ESel:
			e = x.X
		case EIndex:
			e = x.X
		case ESlice:
			e = x.X
		case EUn:
			e = x.X
		default:
			return ""
		}
	}
}

func (fr *Frame) inlineWriteSet(ws *writeSet, li *loopInfo, fn *ssa.Function, c *ssa.CallCommon, depth int) {
	if depth > 2 {
		ws.all = true
		return
	}
	for _, b := range fn.Blocks {
		for _, in := range b.Instrs {
			switch x := in.(type) {
			case *ssa.Store:
				root := fr.rootOf(x.Addr)
				switch rv := root.(type) {
				case *ssa.Parameter:
					for i, p := range fn.Params {
						if p == rv && i < len(c.Args) {
							fr.addWriteVia(ws, li, c.Args[i], x.Val.Type())
						}
					}
				case *ssa.Alloc, *ssa.MakeSlice:
					ws.allocs = true
					for _, s := range fr.l().layoutSafe(x.Val.Type()) {
						ws.sorts[s] = true
					}
				default:
					for _, s := range fr.l().layoutSafe(x.Val.Type()) {
						ws.sorts[s] = true
					}
					if !fr.l().flatOK(x.Val.Type()) {
						ws.all = true
					}
				}
			case *ssa.Alloc, *ssa.MakeSlice, *ssa.MakeMap, *ssa.MakeClosure:
				ws.allocs = true
			case *ssa.MapUpdate:
				ws.sorts["Map"] = true
			case ssa.CallInstruction:
				// nested calls inside an inlined callee: conservative
				cc := x.Common()
				if _, ok := cc.Value.(*ssa.Builtin); ok {
					if cc.Value.Name() == "append" || cc.Value.Name() == "copy" {
						sl := cc.Args[0].Type().Underlying().(*types.Slice)
						ws.allocs = true
						for _, s := range fr.l().layoutSafe(sl.Elem()) {
							ws.sorts[s] = true
						}
					}
					continue
				}
				tgt := callTarget{}
				if f := cc.StaticCallee(); f != nil {
					tgt.fn = f
					p := calleePkgPath(f)
					if isEffectFree(p) {
						continue
					}
					if con := fr.eng.cs.lookup(f.String()); con != nil && (con.Pure || (con.HasAssigns && len(con.Assigns) == 0)) {
						continue
					}
				}
				ws.all = true
			}
		}
	}
}

func (fr *Frame) addWriteVia(ws *writeSet, li *loopInfo, arg ssa.Value, t types.Type) {
	fr.addWrite(ws, li, arg, t)
}

// callWritesOnlyRowsOrFresh: used for the "allocated inside the loop" frame
func (fr *Frame) callWritesOnlyRowsOrFresh(li *loopInfo, ci ssa.CallInstruction, s Sort) bool {
	tmp := &writeSet{sorts: map[Sort]bool{}, rows: map[Sort][]string{}}
	fr.callWriteSet(tmp, li, ci)
	if tmp.all {
		return false
	}
	if tmp.sorts[s] {
		// whole-sort write by a call: only fine if it targets loop-local allocations, which we cannot tell here
		c := ci.Common()
		if b, ok := c.Value.(*ssa.Builtin); ok && (b.Name() == "append" || b.Name() == "copy") {
			root := fr.rootOf(c.Args[0])
			// appending to the result of an append: the array written is the one the inner append wrote or returned
			for depth := 0; depth < 8; depth++ {
				ac, ok := root.(*ssa.Call)
				if !ok {
					break
				}
				if ab, ok := ac.Call.Value.(*ssa.Builtin); !ok || ab.Name() != "append" {
					break
				}
				root = fr.rootOf(ac.Call.Args[0])
			}
			switch root.(type) {
			case *ssa.Alloc, *ssa.MakeSlice:
				return true
			}
			if fr.selfAppended(li, root) != nil {
				return true // writes go to the array the variable had on entry (a listed row) or to arrays allocated in the loop
			}
		}
		// pointer arguments rooted at loop-local allocations
		var all []ssa.Value
		if c.IsInvoke() {
			all = append(all, c.Value)
		}
		all = append(all, c.Args...)
		for _, a := range all {
			switch types.Unalias(a.Type()).Underlying().(type) {
			case *types.Pointer, *types.Slice:
				root := fr.rootOf(a)
				if fr.definedOutside(root, li) {
					continue
				}
				switch root.(type) {
				case *ssa.Alloc, *ssa.MakeSlice:
					continue
				}
				return false
			}
		}
		return true
	}
	return true
}

// selfAppended: v is a slice variable of the loop (a phi of its header) that the loop only re-assigns by appending
// to itself. Its backing array is then the one it had on loop entry or one allocated inside the loop. Returns the
// values flowing in from outside the loop (whose arrays are the only pre-existing rows such appends can write).
func (fr *Frame) selfAppended(li *loopInfo, v ssa.Value) []ssa.Value {
	phi, ok := v.(*ssa.Phi)
	if !ok || phi.Block() != li.header {
		return nil
	}
	if _, isSl := phi.Type().Underlying().(*types.Slice); !isSl {
		return nil
	}
	var entries []ssa.Value
	var fromInside func(x ssa.Value, depth int) bool
	fromInside = func(x ssa.Value, depth int) bool {
		if depth > 6 {
			return false
		}
		if x == phi {
			return true
		}
		switch y := x.(type) {
		case *ssa.Call:
			if b, ok := y.Call.Value.(*ssa.Builtin); ok && b.Name() == "append" {
				return fromInside(fr.rootOf(y.Call.Args[0]), depth+1)
			}
		case *ssa.Phi:
			if li.body[y.Block()] {
				for _, e := range y.Edges {
					if !fromInside(e, depth+1) {
						return false
					}
				}
				return true
			}
		}
		return false
	}
	for k, p := range li.header.Preds {
		if li.body[p] {
			if !fromInside(phi.Edges[k], 0) {
				return nil
			}
		} else {
			entries = append(entries, phi.Edges[k])
		}
	}
	if len(entries) == 0 {
		return nil
	}
	return entries
}

// resultAlias: the contract states `result == p` for a parameter p (first such conjunct)
func resultAlias(con *Contract) string {
	var find func(e Expr) string
	find = func(e Expr) string {
		b, ok := e.(EBin)
		if !ok {
			return ""
		}
		if b.Op == "&&" {
			if s := find(b.L); s != "" {
				return s
			}
			return find(b.R)
		}
		if b.Op == "==" {
			l, lok := b.L.(EIdent)
			r, rok := b.R.(EIdent)
			if lok && rok && l.Name == "result" {
				return r.Name
			}
			if lok && rok && r.Name == "result" {
				return l.Name
			}
		}
		return ""
	}
	for _, c := range con.Ensures {
		if s := find(c.E); s != "" {
			return s
		}
	}
	return ""
}

// calleeHasLocal: is the unresolved name of the error message a local variable of the callee?
func calleeHasLocal(fn *ssa.Function, msg string) bool {
	i := strings.Index(msg, "unresolved name \"")
	if fn == nil || i < 0 {
		return false
	}
	name := msg[i+len("unresolved name \""):]
	if j := strings.Index(name, "\""); j >= 0 {
		name = name[:j]
	}
	for _, b := range fn.Blocks {
		for _, in := range b.Instrs {
			switch x := in.(type) {
			case *ssa.DebugRef:
				if identName(x) == name {
					return true
				}
			case *ssa.Alloc:
				if x.Comment == name {
					return true
				}
			case *ssa.Phi:
				if x.Comment == name {
					return true
				}
			}
		}
	}
	return false
}

package main

import (
	"bufio"
	"encoding/json"
	"fmt"
	"os"
	"path/filepath"
	"regexp"
	"sort"
	"strings"
	"time"
)

type knownFinding struct {
	prop string
	obl  string
	text string
}

func loadKnown(verif string) []knownFinding {
	f, err := os.Open(filepath.Join(verif, "known-findings.txt"))
	if err != nil {
		return nil
	}
	defer f.Close()
	var out []knownFinding
	sc := bufio.NewScanner(f)
	for sc.Scan() {
		l := strings.TrimSpace(sc.Text())
		if !strings.HasPrefix(l, "known:") {
			continue
		}
		fs := strings.Fields(l[len("known:"):])
		if len(fs) < 2 || !strings.HasPrefix(fs[0], "property=") {
			continue
		}
		out = append(out, knownFinding{prop: strings.TrimPrefix(fs[0], "property="), obl: fs[1], text: strings.Join(fs[2:], " ")})
	}
	return out
}

func matchKnown(kf []knownFinding, prop, obl string) *knownFinding {
	base := obl
	if i := strings.Index(base, "@ret"); i >= 0 {
		base = base[:i] + ")"
	}
	for i := range kf {
		if kf[i].prop != prop {
			continue
		}
		if kf[i].obl == obl || kf[i].obl == base {
			return &kf[i]
		}
		if strings.Contains(kf[i].obl, "*") {
			// `*` stands for any run of characters (entries never cover more than one write site / clause)
			pat := "^" + strings.ReplaceAll(regexp.QuoteMeta(kf[i].obl), `\*`, `.*`) + "$"
			if ok, _ := regexp.MatchString(pat, obl); ok {
				return &kf[i]
			}
		}
	}
	return nil
}

type failure struct {
	name, kind, text, status, backend, output, pos, query string
	noInput bool
}

func report(eng *Engine, prop, tier, verif string, cfg *PropCfg, res *runResult, vcOf map[*Obl]*VC, conOf map[*VC]*Contract,
	start time.Time, loadT, genT time.Duration, expectFail string, verbose bool, timeout int) int {
	known := loadKnown(verif)
	var fails []failure
	discharged := 0
	byKind := map[string]int{}
	byBackend := map[string]int{}
	var solverMs int64
	type sample struct {
		Obligation string `json:"obligation"`
		Kind       string `json:"kind"`
		What       string `json:"what"`
		Status     string `json:"status"`
		Backend    string `json:"backend"`
		Ms         int64  `json:"ms"`
	}
	var samples []sample
	perFunc := map[string][2]int{}
	for _, o := range res.obls {
		byKind[baseKind(o.Kind)]++
		solverMs += o.Result.Ms
		ok := false
		if o.Cover {
			ok = o.Result.Status != "unsat"
		} else {
			ok = o.Result.Status == "unsat"
		}
		pf := perFunc[o.Func]
		pf[0]++
		if ok {
			discharged++
			pf[1]++
			byBackend[o.Result.Backend]++
			if len(samples) < 6 && o.Result.Backend != "trivial" {
				samples = append(samples, sample{o.Name, o.Kind, o.Text, o.Result.Status, o.Result.Backend, o.Result.Ms})
			}
		} else {
			f := failure{name: o.Name, kind: o.Kind, text: o.Text, status: o.Result.Status, backend: o.Result.Backend, output: o.Result.Output, pos: o.Pos.String()}
			if vc := vcOf[o]; vc != nil {
				f.query = vc.query(o)
			}
			f.noInput = true
			fails = append(fails, f)
		}
		perFunc[o.Func] = pf
		if verbose {
			fmt.Printf("  %-8s %-10s %5dms %s   %s\n", o.Result.Status, o.Result.Backend, o.Result.Ms, o.Name, o.Text)
		}
	}
	for _, m := range res.missing {
		fails = append(fails, failure{name: shortName(m) + "#contract-target", kind: "contract-target", text: "function under contract not found in the current tree: " + m, status: "missing", noInput: true})
	}
	effTotal := 0
	for _, e := range res.effects {
		effTotal++
		byKind[e.Kind]++
		if e.OK {
			discharged++
			byBackend["frame"]++
			if len(samples) < 8 {
				samples = append(samples, sample{e.Name, e.Kind, e.Text, "discharged", "frame", 0})
			}
		} else {
			fails = append(fails, failure{name: e.Name, kind: e.Kind, text: e.Text, status: "frame-violation", backend: "frame", output: e.Detail, pos: e.Pos, noInput: true})
		}
	}
	total := len(res.obls) + len(res.missing) + effTotal
	// selftest mode
	if expectFail != "" {
		re := regexp.MustCompile(expectFail)
		for _, f := range fails {
			if matchKnown(known, prop, f.name) != nil {
				continue // fails on the unchanged tree too (a recorded finding): proves nothing about the change
			}
			if re.MatchString(f.name) {
				fmt.Printf("selftest ok: %s failed as expected (%s)\n", f.name, f.status)
				return 0
			}
		}
		fmt.Printf("selftest FAILED: no failing obligation matches %q (%d failures", expectFail, len(fails))
		for i, f := range fails {
			if i < 8 {
				fmt.Printf(" %s", f.name)
			}
		}
		fmt.Println(" ...)")
		return 1
	}
	// violations
	outDir := filepath.Join(verif, "replay", "out", prop)
	os.MkdirAll(outDir, 0o755)
	violations := 0
	knownHit := 0
	sort.Slice(fails, func(i, j int) bool { return fails[i].name < fails[j].name })
	for _, f := range fails {
		if k := matchKnown(known, prop, f.name); k != nil {
			fmt.Printf("KNOWN-FINDING: property=%s %s %s\n", prop, f.name, k.text)
			knownHit++
			continue
		}
		violations++
		path := filepath.Join(outDir, sanitize(f.name)+".json")
		rep := map[string]interface{}{
			"property": prop, "obligation": f.name, "kind": f.kind, "what": f.text, "source": f.pos,
			"solver_status": f.status, "backend": f.backend, "solver_output": truncate(f.output, 4000),
			"failing_input": nil, "note": "no-failing-input-found: the verifier produced no model that could be replayed; the obligation is reported with the solver output",
		}
		if f.query != "" {
			qp := filepath.Join(outDir, sanitize(f.name)+".smt2")
			os.WriteFile(qp, []byte(f.query), 0o644)
			rep["smt_query"] = qp
		}
		suffix := " no-failing-input-found"
		if rp := tryReplay(eng, prop, f, verif, outDir, rep); rp {
			suffix = ""
		}
		b, _ := json.MarshalIndent(rep, "", " ")
		os.WriteFile(path, b, 0o644)
		fmt.Printf("VIOLATION property=%s replay=%s%s\n", prop, path, suffix)
		fmt.Printf("  obligation %s [%s]: %s\n", f.name, f.status, f.text)
	}
	// evidence
	var funcs []map[string]interface{}
	var fnames []string
	for n := range perFunc {
		fnames = append(fnames, n)
	}
	sort.Strings(fnames)
	for _, n := range fnames {
		funcs = append(funcs, map[string]interface{}{"func": n, "obligations": perFunc[n][0], "discharged": perFunc[n][1]})
	}
	unm := map[string]bool{}
	ass := map[string]bool{}
	for _, vc := range res.vcs {
		for k := range vc.unmodelled {
			unm[k] = true
		}
		for k := range vc.assumptions {
			ass[k] = true
		}
	}
	for _, e := range res.effects {
		for _, a := range e.Assumes {
			ass[a] = true
		}
	}
	keysOf := func(m map[string]bool) []string {
		var out []string
		for k := range m {
			out = append(out, k)
		}
		sort.Strings(out)
		return out
	}
	level := "proof"
	expl := ""
	if violations > 0 || knownHit > 0 || discharged < total {
		level = "other"
		expl = fmt.Sprintf("%d of %d obligations discharged; %d violation(s), %d known finding(s): not a complete proof on this tree", discharged, total, violations, knownHit)
	}
	if level == "proof" && cfg.LevelOther != "" {
		level = "other"
		expl = fmt.Sprintf("%d of %d proof obligations discharged; %s", discharged, total, cfg.LevelOther)
	}
	trusted := []string{"govc VC generator (this repository, /verif/govc): SSA semantics of DESIGN.md section 2.3", "golang.org/x/tools/go/ssa v0.29.0", "z3 4.8.12 / z3 5.1.0 / cvc5 1.0 (any one answering unsat)"}
	var contractFiles []string
	for _, f := range eng.cs.Files {
		contractFiles = append(contractFiles, f)
	}
	assumptions := append([]string{}, cfg.Assumed...)
	assumptions = append(assumptions, keysOf(ass)...)
	for _, u := range keysOf(unm) {
		assumptions = append(assumptions, "unmodelled: "+u)
	}
	for _, nd := range cfg.NotDecided {
		assumptions = append(assumptions, "not decided by this check: "+nd)
	}
	cov := map[string]interface{}{
		"obligations": total, "discharged": discharged,
		"checker_cmd":  fmt.Sprintf("govc verify -prop %s -tier %s (packages: %s)", prop, tier, strings.Join(cfg.Packages, " ")),
		"trusted_base": trusted, "functions_under_contract": funcs, "by_kind": byKind, "by_backend": byBackend,
		"solver_s": float64(solverMs) / 1000, "samples": samples, "contract_files": contractFiles,
		"known_findings_hit": knownHit, "solver_timeout_s": timeout,
		"load_s": loadT.Seconds(), "vcgen_s": (genT - loadT).Seconds(),
	}
	if expl != "" {
		cov["explanation"] = expl
	}
	seed := 0
	fmt.Sscan(os.Getenv("VERIF_SEED"), &seed)
	ev := map[string]interface{}{
		"property_id": prop, "tier": tier, "seed": seed, "level": level, "coverage": cov, "assumptions": assumptions,
		"wall_s": time.Since(start).Seconds(), "violations": violations,
	}
	os.MkdirAll(filepath.Join(verif, "evidence"), 0o755)
	b, _ := json.MarshalIndent(ev, "", " ")
	os.WriteFile(filepath.Join(verif, "evidence", prop+".json"), b, 0o644)
	fmt.Printf("%s: %d obligations, %d discharged, %d violations, %d known findings, %.1fs (load %.1fs, vcgen %.1fs, solvers %.1fs cpu)\n",
		prop, total, discharged, violations, knownHit, time.Since(start).Seconds(), loadT.Seconds(), (genT - loadT).Seconds(), float64(solverMs)/1000)
	if total == 0 {
		fmt.Println("error: zero obligations generated (vacuous run)")
		return 2
	}
	if violations > 0 {
		return 1
	}
	return 0
}

func baseKind(k string) string {
	if i := strings.Index(k, "@"); i >= 0 {
		k = k[:i]
	}
	if i := strings.Index(k, "("); i >= 0 {
		k = k[:i]
	}
	return k
}

func truncate(s string, n int) string {
	if len(s) > n {
		return s[:n] + "…"
	}
	return s
}

// tryReplay: hook for counterexample replay against the real code (see replay.go)
func tryReplay(eng *Engine, prop string, f failure, verif, outDir string, rep map[string]interface{}) bool {
	return replayFailure(eng, prop, f, verif, outDir, rep)
}

package main

// C10 frame obligations: an entry function (Solve / Prove / Verify / blueprint methods) must not write
// memory reachable from its shared parameters (compiled system, keys, option values). Discharged by a
// summary-based provenance analysis over go/ssa:
//   W(f)  = set of regions (parameter i, first-level field) f may write into (deeply), with a witness
//   R(f)  = what the results of f may point to (parameter regions, or fresh objects with tainted fields)
// computed to a fixpoint over the call graph of the loaded packages. Writes into memory allocated during
// the call are not in W. The analysis is flow-insensitive and conservative for code it sees; callees
// without body use the assumed effects listed in extEffects (reported in the evidence).

import (
	"fmt"
	"os"
	"strings"
	"go/token"
	"go/types"
	"regexp"
	"sort"

	"golang.org/x/tools/go/ssa"
)

type region struct {
	param int  // index into params ++ freevars; -2 = package-level state
	field int  // first-level field index, -1 = whole object / not a struct
	depth int  // 0: the write goes into the referent object itself; n: through n pointers stored in it (capped at 3)
}

type base struct {
	kind   int // 0 = param region, 1 = fresh allocation (site), 2 = global
	reg    region
	site   ssa.Value
	direct bool // the parameter value itself (a pointer to the object), not something loaded from it
	faddr  int  // for fresh allocations: address of field faddr (-1: the object / a cell)
	isAddr bool
	depth  int  // param regions: number of pointers followed from the parameter's referent (capped at 3)
	cell   bool // a captured variable (free variable holding the address of a reference-typed variable), not yet loaded
}

type baseSet map[string]base

func (b base) key() string {
	return fmt.Sprintf("%d|%d|%d|%p|%v|%d|%v|%v|%v", b.kind, b.reg.param, b.reg.field, b.site, b.direct, b.faddr, b.isAddr, b.depth, b.cell)
}

func (s baseSet) add(b base) bool {
	k := b.key()
	if _, ok := s[k]; ok {
		return false
	}
	s[k] = b
	return true
}

func (s baseSet) addAll(o baseSet) bool {
	ch := false
	for _, b := range o {
		if s.add(b) {
			ch = true
		}
	}
	return ch
}

type writeInfo struct {
	why string
	via string // the function (or external method) performing the ultimate write
}

type wkey struct {
	r   region
	via string
}

type fnSummary struct {
	fn     *ssa.Function
	wv     map[wkey]writeInfo
	w      map[region]writeInfo
	ret    map[int]baseSet            // per result index: bases of returned values over this function's params (fresh sites summarised)
	retFld map[int]map[int]baseSet    // per result index, for returned fresh objects: field -> param regions stored there
	tuples map[ssa.Value]map[int]baseSet // call result tuples: component -> bases
	vals   map[ssa.Value]baseSet      // local
	taint  map[ssa.Value]map[int]baseSet // fresh alloc site -> field (-1 cell) -> stored bases
}

type frameAnalysis struct {
	eng     *Engine
	sums    map[*ssa.Function]*fnSummary
	byName  map[string][]*ssa.Function
	assumes map[string]bool
	changed bool
	comps   map[ssa.Value]map[int]ssa.Value
}

// assumed effects of callees without body: which argument positions (0 = receiver for methods) may be written
var extWritesArgs = map[string][]int{
	"FFT": {1}, "FFTInverse": {1}, "BitReverse": {0}, "Butterfly": {0, 1}, "Read": {1}, "ReadFull": {1}, "Decode": {1},
	"Copy": {0}, "PutUint64": {1}, "PutUint32": {1}, "Sort": {0}, "Ints": {0}, "Slice": {0}, "Strings": {0},
}

var extReadOnlyMethods = map[string]bool{"Equal": true, "IsZero": true, "IsOne": true, "Cmp": true, "String": true, "Marshal": true, "Bytes": true, "RawBytes": true,
	"BigInt": true, "Sign": true, "BitLen": true, "IsUint64": true, "Uint64": true, "Int64": true, "Text": true, "IsInSubGroup": true, "IsInfinity": true, "IsOnCurve": true,
	"Len": true, "Size": true, "BlockSize": true, "Error": true, "WriteTo": true, "WriteRawTo": true, "Msg": true, "Str": true, "Dur": true, "Int": true, "Err": true,
	"Logger": true, "With": true, "Debug": true, "Info": true, "Warn": true, "Trace": true, "CurveID": true, "Bit": true, "Coefficients": true, "Clone": true, "Commit": true,
	"NbConstraints": true, "ProveKnowledge": true, "Load": true, "Wait": true, "RLock": true, "RUnlock": true, "Lock": true, "Unlock": true, "Done": true, "Add": false}

// newFrameAnalysis runs the summary computation over all loaded functions
func newFrameAnalysis(eng *Engine) (*frameAnalysis, []*ssa.Function) {
	fa := &frameAnalysis{eng: eng, sums: map[*ssa.Function]*fnSummary{}, byName: map[string][]*ssa.Function{}, assumes: map[string]bool{}}
	fns := eng.allFunctions()
	for _, f := range fns {
		fa.sums[f] = &fnSummary{fn: f, wv: map[wkey]writeInfo{}, w: map[region]writeInfo{}, ret: map[int]baseSet{}, retFld: map[int]map[int]baseSet{}}
		if f.Signature.Recv() != nil {
			fa.byName[f.Name()] = append(fa.byName[f.Name()], f)
		}
	}
	for iter := 0; iter < 30; iter++ {
		fa.changed = false
		for _, f := range fns {
			fa.analyse(fa.sums[f])
		}
		if !fa.changed {
			break
		}
	}
	return fa, fns
}

// checkAssigns: the `assigns` clause of a verified contract is itself an obligation: every region the
// function may write (provenance summary) must belong to a parameter named in the clause.
func checkAssigns(eng *Engine, fa *frameAnalysis, fn *ssa.Function, con *Contract) []*EffectObl {
	sum := fa.sums[fn]
	if sum == nil {
		return nil
	}
	allowed := map[string]bool{}
	for _, a := range con.Assigns {
		if b := baseIdent(a.E); b != "" {
			allowed[b] = true
		}
		if gc, ok := a.E.(ECall); ok && (gc.Fun == "deep" || gc.Fun == "spare") && len(gc.Args) == 1 {
			if b := baseIdent(gc.Args[0]); b != "" {
				allowed[b] = true
			}
			continue
		}
		if gc, ok := a.E.(ECall); ok && len(gc.Args) > 0 {
			// ghost state is not program memory
			continue
		}
	}
	var bad []string
	for wk, wi := range sum.wv {
		r := wk.r
		name := "package-level state"
		if r.param >= 0 && r.param < len(fn.Params) {
			name = fn.Params[r.param].Name()
			if allowed[name] || (r.param == 0 && fn.Signature.Recv() != nil && allowed["recv"]) {
				continue
			}
		} else if r.param >= len(fn.Params) {
			k := r.param - len(fn.Params)
			if k < len(fn.FreeVars) {
				name = fn.FreeVars[k].Name()
				if allowed[name] {
					continue
				}
			}
		}
		bad = append(bad, name+": "+wi.why)
	}
	sort.Strings(bad)
	o := &EffectObl{Name: funcShort(fn) + "#assigns", Kind: "assigns", OK: len(bad) == 0, Pos: eng.relPos(fn.Pos()),
		Text: "the function writes only memory named in its assigns clause (or memory it allocates)"}
	if len(bad) > 0 {
		if len(bad) > 3 {
			bad = bad[:3]
		}
		o.Text += ": writes through " + strings.Join(bad, " | ")
		o.Detail = strings.Join(bad, " | ")
	}
	for a := range fa.assumes {
		o.Assumes = append(o.Assumes, a)
	}
	sort.Strings(o.Assumes)
	return []*EffectObl{o}
}

func runFrames(eng *Engine, cfg *EffectCfg) []*EffectObl {
	fa := &frameAnalysis{eng: eng, sums: map[*ssa.Function]*fnSummary{}, byName: map[string][]*ssa.Function{}, assumes: map[string]bool{}}
	fns := eng.allFunctions()
	for _, f := range fns {
		fa.sums[f] = &fnSummary{fn: f, wv: map[wkey]writeInfo{}, w: map[region]writeInfo{}, ret: map[int]baseSet{}, retFld: map[int]map[int]baseSet{}}
		if f.Signature.Recv() != nil {
			fa.byName[f.Name()] = append(fa.byName[f.Name()], f)
		}
	}
	for iter := 0; iter < 30; iter++ {
		fa.changed = false
		for _, f := range fns {
			fa.analyse(fa.sums[f])
		}
		if !fa.changed {
			break
		}
	}
	if dbg := os.Getenv("GOVC_FRAME_DEBUG"); dbg != "" {
		for _, f := range fns {
			if strings.Contains(f.String(), dbg) {
				sum := fa.sums[f]
				fmt.Fprintln(os.Stderr, "== summary of", f.String())
				for k, wi := range sum.wv {
					fmt.Fprintf(os.Stderr, "  W param=%d field=%d depth=%d via=%s : %s\n", k.r.param, k.r.field, k.r.depth, wi.via, wi.why)
				}
				for ri, rbs := range sum.ret {
					for _, b := range rbs {
						fmt.Fprintf(os.Stderr, "  RET[%d] kind=%d param=%d field=%d depth=%d direct=%v\n", ri, b.kind, b.reg.param, b.reg.field, b.depth, b.direct)
					}
					for fld, bs := range sum.retFld[ri] {
						for _, b := range bs {
							fmt.Fprintf(os.Stderr, "  RETFLD[%d] %d <- kind=%d param=%d field=%d\n", ri, fld, b.kind, b.reg.param, b.reg.field)
						}
					}
				}
			}
		}
	}
	var out []*EffectObl
	var fnames []string
	for fre := range cfg.SharedParams {
		fnames = append(fnames, fre)
	}
	sort.Strings(fnames)
	for _, fre := range fnames {
		re := regexp.MustCompile(fre)
		shared := cfg.SharedParams[fre]
		for _, f := range fns {
			if !re.MatchString(f.String()) {
				continue
			}
			sum := fa.sums[f]
			for i, p := range f.Params {
				isShared := false
				for _, s := range shared {
					if s == p.Name() || s == "*" || (s == "recv" && i == 0 && f.Signature.Recv() != nil) {
						isShared = true
					}
				}
				if !isShared || !isRefLike(p.Type()) {
					continue
				}
				vias := map[string]string{}
				for wk, wi := range sum.wv {
					if wk.r.param == i {
						if _, dup := vias[wi.via]; !dup || len(wi.why) < len(vias[wi.via]) {
							vias[wi.via] = wi.why
						}
					}
				}
				var assumes []string
				for a := range fa.assumes {
					assumes = append(assumes, a)
				}
				sort.Strings(assumes)
				text := fmt.Sprintf("%s writes nothing reachable from its shared parameter %s (only memory it allocates or owns)", funcShort(f), p.Name())
				if len(vias) == 0 {
					out = append(out, &EffectObl{Name: fmt.Sprintf("%s#assigns(%s)", funcShort(f), p.Name()), Kind: "assigns", OK: true, Pos: eng.relPos(f.Pos()), Text: text, Assumes: assumes})
					continue
				}
				var vs []string
				for v := range vias {
					vs = append(vs, v)
				}
				sort.Strings(vs)
				for _, v := range vs {
					out = append(out, &EffectObl{Name: fmt.Sprintf("%s#assigns(%s):via(%s)", funcShort(f), p.Name(), v), Kind: "assigns", OK: false, Pos: eng.relPos(f.Pos()),
						Text: text + ": written by " + v + ": " + vias[v], Detail: vias[v], Assumes: assumes})
				}
			}
		}
	}
	return out
}

func (fa *frameAnalysis) paramIndex(f *ssa.Function, v ssa.Value) int {
	for i, p := range f.Params {
		if p == v {
			return i
		}
	}
	for i, fv := range f.FreeVars {
		if fv == v {
			return len(f.Params) + i
		}
	}
	return -1
}

func (fa *frameAnalysis) val(s *fnSummary, v ssa.Value) baseSet {
	if bs, ok := s.vals[v]; ok {
		return bs
	}
	switch x := v.(type) {
	case *ssa.Parameter, *ssa.FreeVar:
		if isRefLike(v.Type()) || isFuncType(v.Type()) {
			bs := baseSet{}
			_, isFV := v.(*ssa.FreeVar)
			bs.add(base{kind: 0, reg: region{fa.paramIndex(s.fn, v), -1, 0}, direct: true, faddr: -1, cell: isFV && isCellType(v.Type())})
			return bs
		}
	case *ssa.Global:
		bs := baseSet{}
		bs.add(base{kind: 2, reg: region{-2, -1, 0}, faddr: -1, isAddr: true})
		_ = x
		return bs
	}
	return baseSet{}
}

func isFuncType(t types.Type) bool {
	_, ok := types.Unalias(t).Underlying().(*types.Signature)
	return ok
}

func (fa *frameAnalysis) setVal(s *fnSummary, v ssa.Value, bs baseSet) {
	cur, ok := s.vals[v]
	if !ok {
		cur = baseSet{}
		s.vals[v] = cur
	}
	if cur.addAll(bs) {
		fa.changed = true
	}
}

func (fa *frameAnalysis) addWrite(s *fnSummary, r region, why string) {
	fa.addWriteVia(s, r, why, funcShort(s.fn))
}

// W is keyed by (region, via): distinct ultimate write sites stay distinguishable in the reports
func (fa *frameAnalysis) addWriteVia(s *fnSummary, r region, why, via string) {
	k := wkey{r, via}
	if _, ok := s.wv[k]; !ok {
		s.wv[k] = writeInfo{why: why, via: via}
		s.w[r] = writeInfo{why: why, via: via}
		fa.changed = true
	}
}

func (fa *frameAnalysis) taintOf(s *fnSummary, site ssa.Value, fld int) baseSet {
	m := s.taint[site]
	if m == nil {
		return baseSet{}
	}
	out := baseSet{}
	if bs := m[fld]; bs != nil {
		out.addAll(bs)
	}
	if fld != -1 {
		if bs := m[-1]; bs != nil {
			out.addAll(bs)
		}
	} else {
		for _, bs := range m {
			out.addAll(bs)
		}
	}
	return out
}

func (fa *frameAnalysis) addTaint(s *fnSummary, site ssa.Value, fld int, bs baseSet) {
	if os.Getenv("GOVC_TAINT_DEBUG") != "" && fld == -1 && len(bs) > 0 && strings.Contains(s.fn.String(), os.Getenv("GOVC_TAINT_DEBUG")) {
		fmt.Fprintf(os.Stderr, "TAINT -1 of %s (%T %s) in %s: %d bases\n", site.Name(), site, site.String(), s.fn.Name(), len(bs))
	}
	m := s.taint[site]
	if m == nil {
		m = map[int]baseSet{}
		s.taint[site] = m
	}
	cur := m[fld]
	if cur == nil {
		cur = baseSet{}
		m[fld] = cur
	}
	// only param / global bases and other fresh sites matter
	if cur.addAll(bs) {
		fa.changed = true
	}
}

// writeThrough: a store through an address / into the referent of a value with these bases
func (fa *frameAnalysis) writeThrough(s *fnSummary, bs baseSet, stored baseSet, why string) {
	for _, b := range bs {
		switch b.kind {
		case 0:
			r := b.reg
			r.depth = b.depth
			fa.addWrite(s, r, why)
		case 2:
			fa.addWrite(s, region{-2, -1, 0}, why)
		case 1:
			if stored != nil {
				fa.addTaint(s, b.site, b.faddr, stored)
			}
		}
	}
}

func (fa *frameAnalysis) writeThroughVia(s *fnSummary, bs baseSet, why, via string) {
	for _, b := range bs {
		switch b.kind {
		case 0:
			r := b.reg
			r.depth = b.depth
			fa.addWriteVia(s, r, why, via)
		case 2:
			fa.addWriteVia(s, region{-2, -1, 0}, why, via)
		}
	}
}

// deref: bases of the value obtained by loading through an address with these bases
func (fa *frameAnalysis) deref(s *fnSummary, bs baseSet) baseSet {
	out := baseSet{}
	for _, b := range bs {
		switch b.kind {
		case 0:
			if b.cell && b.direct {
				// loading a captured variable: the value of the variable plays the role of the parameter
				nb := b
				nb.cell = false
				out.add(nb)
				continue
			}
			nb := b
			if !b.direct || b.isAddr {
				// a value read out of the parameter's referent (or deeper): what it points to is one level deeper
				if nb.depth < 3 {
					nb.depth++
				}
			}
			nb.direct = false
			nb.isAddr = false
			out.add(nb)
		case 2:
			nb := b
			nb.isAddr = false
			out.add(nb)
		case 1:
			out.addAll(fa.taintOf(s, b.site, b.faddr))
			if !b.isAddr {
				// loading through a pointer INTO a fresh object (e.g. element of a fresh slice): contents = taints of the object
				out.addAll(fa.taintOf(s, b.site, -1))
			}
		}
	}
	return out
}

func (fa *frameAnalysis) analyse(s *fnSummary) {
	f := s.fn
	if s.vals == nil {
		s.vals = map[ssa.Value]baseSet{}
		s.taint = map[ssa.Value]map[int]baseSet{}
		s.tuples = map[ssa.Value]map[int]baseSet{}
	}
	pos := func(p token.Pos) string { return fa.eng.relPos(p) }
	for _, b := range f.Blocks {
		for _, in := range b.Instrs {
			switch x := in.(type) {
			case *ssa.Alloc, *ssa.MakeSlice, *ssa.MakeMap, *ssa.MakeChan:
				bs := baseSet{}
				_, isAlloc := x.(*ssa.Alloc)
				bs.add(base{kind: 1, site: x.(ssa.Value), faddr: -1, isAddr: isAlloc})
				fa.setVal(s, x.(ssa.Value), bs)
			case *ssa.FieldAddr:
				out := baseSet{}
				for _, bb := range fa.val(s, x.X) {
					nb := bb
					switch bb.kind {
					case 0:
						if bb.direct {
							nb.reg.field = x.Field
							nb.direct = false
						}
						nb.isAddr = true
					case 1:
						if bb.faddr == -1 {
							nb.faddr = x.Field
						}
						nb.isAddr = true
					}
					out.add(nb)
				}
				fa.setVal(s, x, out)
			case *ssa.IndexAddr:
				out := baseSet{}
				for _, bb := range fa.val(s, x.X) {
					nb := bb
					nb.isAddr = true
					if bb.kind == 0 {
						nb.direct = false
					}
					out.add(nb)
				}
				fa.setVal(s, x, out)
			case *ssa.Slice:
				fa.setVal(s, x, fa.val(s, x.X))
			case *ssa.Field, *ssa.Index:
				var src ssa.Value
				if fx, ok := x.(*ssa.Field); ok {
					src = fx.X
				} else {
					src = x.(*ssa.Index).X
				}
				if typeHasPointers(x.(ssa.Value).Type(), 0) {
					fa.setVal(s, x.(ssa.Value), fa.val(s, src))
				}
			case *ssa.UnOp:
				if x.Op == token.MUL {
					if typeHasPointers(x.Type(), 0) {
						fa.setVal(s, x, fa.deref(s, fa.val(s, x.X)))
					}
				} else if x.Op == token.ARROW {
					// value received from a channel: unknown origin; treat as fresh
				}
			case *ssa.Store:
				if !typeHasPointers(x.Val.Type(), 0) {
					fa.writeThrough(s, fa.val(s, x.Addr), nil, "store at "+pos(x.Pos()))
					continue
				}
				// struct copy between fresh objects keeps the per-field taints
				if ld, ok := x.Val.(*ssa.UnOp); ok && ld.Op == token.MUL && isStructLike(x.Val.Type()) {
					copied := false
					for _, sb := range fa.val(s, ld.X) {
						if sb.kind != 1 || sb.faddr != -1 {
							continue
						}
						for _, db := range fa.val(s, x.Addr) {
							if db.kind == 1 && db.faddr == -1 {
								for fld, bs := range s.taint[sb.site] {
									fa.addTaint(s, db.site, fld, bs)
								}
								copied = true
							}
						}
					}
					if copied {
						fa.writeThrough(s, fa.val(s, x.Addr), nil, "store at "+pos(x.Pos()))
						continue
					}
				}
				stored := fa.val(s, x.Val)
				fa.writeThrough(s, fa.val(s, x.Addr), stored, "store at "+pos(x.Pos()))
			case *ssa.MapUpdate:
				var stored baseSet
				if isRefLike(x.Value.Type()) {
					stored = fa.val(s, x.Value)
				}
				fa.writeThrough(s, fa.val(s, x.Map), stored, "map update at "+pos(x.Pos()))
			case *ssa.Phi:
				for _, e := range x.Edges {
					fa.setVal(s, x, fa.val(s, e))
				}
			case *ssa.ChangeType:
				fa.setVal(s, x, fa.val(s, x.X))
			case *ssa.ChangeInterface:
				fa.setVal(s, x, fa.val(s, x.X))
			case *ssa.MakeInterface:
				fa.setVal(s, x, fa.val(s, x.X))
			case *ssa.TypeAssert:
				fa.setVal(s, x, fa.val(s, x.X))
			case *ssa.Extract:
				if tv, ok := s.tuples[x.Tuple]; ok {
					if bs, ok := tv[x.Index]; ok {
						fa.setVal(s, x, bs)
					}
				} else {
					fa.setVal(s, x, fa.val(s, x.Tuple))
				}
			case *ssa.Convert:
				if isRefLike(x.Type()) {
					fa.setVal(s, x, fa.val(s, x.X))
				}
			case *ssa.Lookup:
				if isRefLike(x.Type()) || isStructLike(x.Type()) {
					fa.setVal(s, x, fa.deref(s, fa.val(s, x.X)))
				}
			case *ssa.Next:
				// (ok, key, value) of a map iteration: value comes out of the map
				if r, ok := x.Iter.(*ssa.Range); ok {
					fa.setVal(s, x, fa.deref(s, fa.val(s, r.X)))
				}
			case *ssa.MakeClosure:
				fn := x.Fn.(*ssa.Function)
				if fa.sums[fn] == nil && strings.Contains(fn.Synthetic, "bound method wrapper") && fn.Object() != nil {
					// s.method used as a value: the wrapper calls the method with the bound receiver
					if mf, ok := fn.Object().(*types.Func); ok {
						if m := fa.eng.prog.FuncValue(mf); m != nil {
							if o := m.Origin(); o != nil && o != m {
								m = o
							}
							if fa.sums[m] != nil && len(x.Bindings) == 1 {
								bs := baseSet{}
								bs.add(base{kind: 1, site: x, faddr: -1})
								fa.setVal(s, x, bs)
								args := []ssa.Value{x.Bindings[0]}
								for i := 1; i < len(m.Params); i++ {
									args = append(args, nil)
								}
								fa.applyCallee(s, m, args, nil, "method value "+shortFuncName(m)+" created at "+pos(x.Pos()))
								fa.addTaint(s, x, -1, fa.val(s, x.Bindings[0]))
								continue
							}
						}
					}
				}
				bs := baseSet{}
				bs.add(base{kind: 1, site: x, faddr: -1})
				fa.setVal(s, x, bs)
				// conservatively: the closure will be called; apply its effects on the bound values now
				var args []ssa.Value
				for range fn.Params {
					args = append(args, nil)
				}
				args = append(args, x.Bindings...)
				fa.applyCallee(s, fn, args, x, "closure "+shortFuncName(fn)+" created at "+pos(x.Pos()))
				// a closure value carries whatever its bindings point to
				for _, bnd := range x.Bindings {
					fa.addTaint(s, x, -1, fa.val(s, bnd))
				}
			case *ssa.Return:
				for ri, r := range x.Results {
					if !typeHasPointers(r.Type(), 0) {
						continue
					}
					if s.ret[ri] == nil {
						s.ret[ri] = baseSet{}
						s.retFld[ri] = map[int]baseSet{}
					}
					for _, bb := range fa.val(s, r) {
						switch bb.kind {
						case 0, 2:
							if s.ret[ri].add(bb) {
								fa.changed = true
							}
						case 1:
							// fresh object returned: export its field taints
							fb := base{kind: 1, faddr: -1}
							if s.ret[ri].add(fb) {
								fa.changed = true
							}
							for fld, bs := range s.taint[bb.site] {
								cur := s.retFld[ri][fld]
								if cur == nil {
									cur = baseSet{}
									s.retFld[ri][fld] = cur
								}
								for _, tb := range fa.flattenTaint(s, bs, 0) {
									if cur.add(tb) {
										fa.changed = true
									}
								}
							}
						}
					}
				}
			case ssa.CallInstruction:
				fa.call(s, x)
			}
		}
	}
}

func isStructLike(t types.Type) bool {
	switch types.Unalias(t).Underlying().(type) {
	case *types.Struct, *types.Array, *types.Tuple:
		return true
	}
	return false
}

// flattenTaint: param/global bases reachable through fresh objects
func (fa *frameAnalysis) flattenTaint(s *fnSummary, bs baseSet, depth int) baseSet {
	out := baseSet{}
	for _, b := range bs {
		switch b.kind {
		case 0, 2:
			nb := b
			if depth > 0 {
				nb.direct = false
			}
			out.add(nb)
		case 1:
			if depth < 3 && b.site != nil {
				out.addAll(fa.flattenTaint(s, fa.taintOf(s, b.site, -1), depth+1))
			}
		}
	}
	return out
}

func (fa *frameAnalysis) call(s *fnSummary, ci ssa.CallInstruction) {
	c := ci.Common()
	pos := fa.eng.relPos(ci.Pos())
	var resV ssa.Value
	if v, ok := ci.(ssa.Value); ok {
		resV = v
	}
	if b, ok := c.Value.(*ssa.Builtin); ok {
		switch b.Name() {
		case "append":
			// in place unless the slice was capped with a three-index expression
			capped := false
			if sl, ok := c.Args[0].(*ssa.Slice); ok && sl.Max != nil && sl.High != nil && (sl.Max == sl.High || sameLenCall(sl.Max, sl.High)) {
				capped = true
			}
			var stored baseSet
			if len(c.Args) > 1 && isRefLikeElem(c.Args[1].Type()) {
				stored = fa.deref(s, fa.val(s, c.Args[1]))
			}
			if !capped {
				fa.writeThrough(s, fa.val(s, c.Args[0]), stored, "append into the spare capacity of a slice at "+pos)
			}
			if resV != nil {
				bs := baseSet{}
				if !capped {
					bs.addAll(fa.val(s, c.Args[0]))
				}
				nb := base{kind: 1, site: resV, faddr: -1}
				bs.add(nb)
				if stored != nil {
					fa.addTaint(s, resV, -1, stored)
				}
				// the copied prefix keeps what the old elements pointed to
				fa.addTaint(s, resV, -1, fa.deref(s, fa.val(s, c.Args[0])))
				fa.setVal(s, resV, bs)
			}
		case "copy":
			var stored baseSet
			if isRefLikeElem(c.Args[1].Type()) {
				stored = fa.deref(s, fa.val(s, c.Args[1]))
			}
			fa.writeThrough(s, fa.val(s, c.Args[0]), stored, "copy into a slice at "+pos)
		case "delete", "clear":
			fa.writeThrough(s, fa.val(s, c.Args[0]), nil, b.Name()+" at "+pos)
		}
		return
	}
	var args []ssa.Value
	if c.IsInvoke() {
		args = append(args, c.Value)
	}
	args = append(args, c.Args...)
	var targets []*ssa.Function
	if c.IsInvoke() {
		iface, _ := c.Value.Type().Underlying().(*types.Interface)
		for _, m := range fa.byName[c.Method.Name()] {
			if len(m.Params) == len(args) && implementsByNames(fa.eng.prog, m.Signature.Recv().Type(), iface) {
				targets = append(targets, m)
			}
		}
	} else if g := c.StaticCallee(); g != nil {
		if o := g.Origin(); o != nil && o != g {
			g = o
		}
		targets = append(targets, g)
	} else {
		// call of a function value: closures created in analysed code were applied at creation; a function
		// value rooted at a parameter (e.g. an option) may store what it captured into its pointer arguments
		fb := fa.val(s, c.Value)
		for _, a := range c.Args {
			if _, isPtr := types.Unalias(a.Type()).Underlying().(*types.Pointer); isPtr {
				for _, ab := range fa.val(s, a) {
					if ab.kind == 1 {
						fa.addTaint(s, ab.site, -1, fa.flattenTaint(s, fb, 0))
					}
				}
			}
		}
		if resV != nil && (isRefLike(resV.Type()) || isStructLike(resV.Type())) {
			fa.setVal(s, resV, fa.flattenTaint(s, fb, 0))
		}
		return
	}
	known := false
	for _, g := range targets {
		if sum := fa.sums[g]; sum != nil {
			known = true
			fa.applyCallee(s, g, args, resV, "call of "+shortFuncName(g)+" at "+pos)
		}
	}
	if known {
		// an interface declared outside this module (hash.Hash, io.Writer ...) can also hold implementations
		// that are not in the loaded packages: their assumed effect is applied as well
		external := false
		if c.IsInvoke() {
			external = true
			if n, ok := types.Unalias(c.Value.Type()).(*types.Named); ok && n.Obj().Pkg() != nil && strings.HasPrefix(n.Obj().Pkg().Path()+"/", modPrefix) {
				external = false
			}
		}
		if !external {
			return
		}
	}
	// callee without body
	name := c.Value.Name()
	isMethod := false
	if c.IsInvoke() {
		name = c.Method.Name()
		isMethod = true
	} else if g := c.StaticCallee(); g != nil {
		name = g.Name()
		isMethod = g.Signature.Recv() != nil
		if isEffectFree(calleePkgPath(g)) {
			return
		}
	}
	if idx, ok := extWritesArgs[name]; ok {
		for _, i := range idx {
			if !isMethod {
				i-- // positions are given with the receiver at 0
				if i < 0 {
					i = 0
				}
			}
			if i >= 0 && i < len(args) {
				fa.writeThroughVia(s, fa.val(s, args[i]), "external "+name+" writes its argument at "+pos, "external:"+name)
			}
		}
		fa.assumes["external "+name+" writes exactly the listed argument positions"] = true
	} else if isMethod && c.IsInvoke() && fa.eng.pureIfaceMethod(c) {
		// the interface method has a contract declaring it `pure` (assumed, listed with the contracts)
		fa.assumes["interface methods under a `pure` contract do not modify their receiver"] = true
	} else if isMethod && !extReadOnlyMethods[name] && len(args) > 0 {
		if os.Getenv("GOVC_TAINT_DEBUG") != "" && strings.Contains(s.fn.String(), os.Getenv("GOVC_TAINT_DEBUG")) {
			fmt.Fprintf(os.Stderr, "EXTCALL %s recv=%s bases=%d at %s\n", name, args[0].Name(), len(fa.val(s, args[0])), pos)
		}
		if _, isPtr := types.Unalias(args[0].Type()).Underlying().(*types.Pointer); isPtr || c.IsInvoke() {
			fa.writeThroughVia(s, fa.val(s, args[0]), "external method "+name+" may modify its receiver at "+pos, "external:"+name)
			fa.assumes["external methods modify at most their receiver (read-only ones listed in govc/frames.go)"] = true
		}
	} else {
		fa.assumes["external package-level functions do not modify their arguments (exceptions listed in govc/frames.go)"] = true
	}
	// results of external calls: fresh, except methods returning their receiver type
	if resV != nil && isMethod && len(args) > 0 && types.Identical(resV.Type(), args[0].Type()) {
		fa.setVal(s, resV, fa.val(s, args[0]))
	} else if resV != nil && (isRefLike(resV.Type())) {
		bs := baseSet{}
		bs.add(base{kind: 1, site: resV, faddr: -1})
		fa.setVal(s, resV, bs)
	}
}

func isRefLikeElem(t types.Type) bool {
	if sl, ok := types.Unalias(t).Underlying().(*types.Slice); ok {
		return typeHasPointers(sl.Elem(), 0)
	}
	return false
}

// typeHasPointers: values of this type can hold references (pointers, slices, maps, interfaces, funcs, channels)
func typeHasPointers(t types.Type, depth int) bool {
	if depth > 6 {
		return true
	}
	switch tt := types.Unalias(t).Underlying().(type) {
	case *types.Basic:
		return tt.Kind() == types.UnsafePointer || tt.Kind() == types.String && false
	case *types.Struct:
		for i := 0; i < tt.NumFields(); i++ {
			if typeHasPointers(tt.Field(i).Type(), depth+1) {
				return true
			}
		}
		return false
	case *types.Array:
		return typeHasPointers(tt.Elem(), depth+1)
	case *types.Tuple:
		for i := 0; i < tt.Len(); i++ {
			if typeHasPointers(tt.At(i).Type(), depth+1) {
				return true
			}
		}
		return false
	}
	return true
}

// applyCallee maps the callee's write regions and result description onto the caller's values
func (fa *frameAnalysis) applyCallee(s *fnSummary, g *ssa.Function, args []ssa.Value, resV ssa.Value, why string) {
	sum := fa.sums[g]
	if sum == nil {
		return
	}
	argBases := func(i int) baseSet {
		if i < 0 || i >= len(args) || args[i] == nil {
			return baseSet{}
		}
		if k := i - len(g.Params); k >= 0 && k < len(g.FreeVars) && isCellType(g.FreeVars[k].Type()) {
			// captured variable: the callee's regions are relative to the variable's value
			return fa.deref(s, fa.val(s, args[i]))
		}
		return fa.val(s, args[i])
	}
	for wk, wi := range sum.wv {
		r := wk.r
		via := wi.via
		chain := why + " -> " + wi.why
		if len(chain) > 600 {
			chain = chain[:600] + "..."
		}
		if r.param == -2 {
			fa.addWriteVia(s, region{-2, -1, 0}, chain, via)
			continue
		}
		for _, b := range argBases(r.param) {
			switch b.kind {
			case 0:
				reg := b.reg
				if b.direct && r.field >= 0 {
					reg.field = r.field
				}
				reg.depth = r.depth + b.depth
				if reg.depth > 3 {
					reg.depth = 3
				}
				fa.addWriteVia(s, reg, chain, via)
			case 2:
				fa.addWriteVia(s, region{-2, -1, 0}, chain, via)
			case 1:
				// a write into a fresh object itself is local; a deep write goes to what its (tainted) fields point to
				if r.depth == 0 {
					continue
				}
				fld := r.field
				if b.faddr != -1 {
					fld = b.faddr
				}
				for _, tb := range fa.flattenTaint(s, fa.taintOf(s, b.site, fld), 0) {
					if tb.kind == 0 {
						reg := tb.reg
						// one pointer (the one stored in the fresh object) has been followed already
						reg.depth = r.depth - 1 + tb.depth
						if reg.depth > 3 {
							reg.depth = 3
						}
						if tb.direct && r.field >= 0 && b.faddr == -1 {
							// unknown which field of the referent: keep the whole object
						}
						fa.addWriteVia(s, reg, chain, via)
					} else if tb.kind == 2 {
						fa.addWriteVia(s, region{-2, -1, 0}, chain, via)
					}
				}
			}
		}
	}
	if resV == nil {
		return
	}
	nres := g.Signature.Results().Len()
	for ri := 0; ri < nres; ri++ {
		rbs := sum.ret[ri]
		if rbs == nil {
			continue
		}
		out := baseSet{}
		// every result component gets its own pseudo-site for the taints of a returned fresh object
		var site ssa.Value = resV
		if nres > 1 {
			site = fa.componentSite(s, resV, ri)
		}
		for _, rb := range rbs {
			switch rb.kind {
			case 0:
				for _, b := range argBases(rb.reg.param) {
					nb := b
					if b.kind == 0 && b.direct && rb.reg.field >= 0 {
						nb.reg.field = rb.reg.field
					}
					if !rb.direct {
						nb.direct = false
					}
					nb.depth += rb.depth
					if nb.depth > 3 {
						nb.depth = 3
					}
					out.add(nb)
				}
			case 2:
				out.add(rb)
			case 1:
				out.add(base{kind: 1, site: site, faddr: -1})
				for fld, bs := range sum.retFld[ri] {
					mapped := baseSet{}
					for _, tb := range bs {
						if tb.kind == 0 {
							for _, b := range argBases(tb.reg.param) {
								nb := b
								nb.direct = false
								if b.kind == 0 && b.direct && tb.reg.field >= 0 {
									nb.reg.field = tb.reg.field
								}
								mapped.add(nb)
							}
						} else {
							mapped.add(tb)
						}
					}
					fa.addTaint(s, site, fld, mapped)
				}
			}
		}
		if nres == 1 {
			fa.setVal(s, resV, out)
		} else {
			tv := s.tuples[resV]
			if tv == nil {
				tv = map[int]baseSet{}
				s.tuples[resV] = tv
			}
			if tv[ri] == nil {
				tv[ri] = baseSet{}
			}
			if tv[ri].addAll(out) {
				fa.changed = true
			}
		}
	}
}

type compSite struct {
	ssa.Value
	idx int
}

// componentSite: a stable pseudo allocation site for component idx of a call's result tuple
func (fa *frameAnalysis) componentSite(s *fnSummary, call ssa.Value, idx int) ssa.Value {
	if fa.comps == nil {
		fa.comps = map[ssa.Value]map[int]ssa.Value{}
	}
	m := fa.comps[call]
	if m == nil {
		m = map[int]ssa.Value{}
		fa.comps[call] = m
	}
	if v, ok := m[idx]; ok {
		return v
	}
	v := &compSite{Value: call, idx: idx}
	m[idx] = v
	return v
}

// sameLenCall: both values are len(x) of the same x (s[:len(s):len(s)])
func sameLenCall(a, b ssa.Value) bool {
	ca, ok1 := a.(*ssa.Call)
	cb, ok2 := b.(*ssa.Call)
	if !ok1 || !ok2 {
		return false
	}
	ba, ok1 := ca.Common().Value.(*ssa.Builtin)
	bb, ok2 := cb.Common().Value.(*ssa.Builtin)
	if !ok1 || !ok2 || ba.Name() != "len" || bb.Name() != "len" {
		return false
	}
	return sameSource(ca.Common().Args[0], cb.Common().Args[0], 0)
}

func sameSource(a, b ssa.Value, depth int) bool {
	if a == b {
		return true
	}
	if depth > 4 {
		return false
	}
	switch x := a.(type) {
	case *ssa.UnOp:
		if y, ok := b.(*ssa.UnOp); ok && x.Op == y.Op {
			return sameSource(x.X, y.X, depth+1)
		}
	case *ssa.FieldAddr:
		if y, ok := b.(*ssa.FieldAddr); ok && x.Field == y.Field {
			return sameSource(x.X, y.X, depth+1)
		}
	case *ssa.Field:
		if y, ok := b.(*ssa.Field); ok && x.Field == y.Field {
			return sameSource(x.X, y.X, depth+1)
		}
	}
	return false
}

// implementsByNames: the candidate's receiver type has all the methods (by name) of the invoked interface
func implementsByNames(prog *ssa.Program, recv types.Type, iface *types.Interface) bool {
	if iface == nil {
		return true
	}
	ms := types.NewMethodSet(recv)
	if _, isPtr := recv.(*types.Pointer); !isPtr {
		ms = types.NewMethodSet(types.NewPointer(recv))
	}
	for i := 0; i < iface.NumMethods(); i++ {
		found := false
		for j := 0; j < ms.Len(); j++ {
			if ms.At(j).Obj().Name() == iface.Method(i).Name() {
				found = true
				break
			}
		}
		if !found {
			return false
		}
	}
	return true
}

// isCellType: pointer to a reference-typed variable (how closures capture variables by reference)
func isCellType(t types.Type) bool {
	p, ok := types.Unalias(t).Underlying().(*types.Pointer)
	if !ok {
		return false
	}
	return isRefLike(p.Elem()) || isFuncType(p.Elem())
}

// pureIfaceMethod: does the invoked interface method have a contract with `pure`?
func (eng *Engine) pureIfaceMethod(c *ssa.CallCommon) bool {
	if c.Method == nil {
		return false
	}
	for _, k := range []string{c.Method.FullName(), "(" + typeString(c.Value.Type()) + ")." + c.Method.Name()} {
		if con := eng.cs.lookup(k); con != nil && con.Pure && !strings.HasSuffix(con.File, ".spec") {
			return true
		}
	}
	return false
}

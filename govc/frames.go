package main

func runFrames(eng *Engine, cfg *EffectCfg) []*EffectObl { return nil }

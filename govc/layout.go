package main

// Typed flat memory model: every Go value is a flat vector of SMT terms whose
// sorts are given by layout(T); an object in memory occupies sizeOf(T)
// consecutive slots of one row (allocation) of the per-sort memories.

import (
	"fmt"
	"go/types"
	"strings"
)

type Val struct {
	T types.Type
	C []string
}

type Layouter struct {
	cache     map[types.Type][]Sort
	sizes     map[types.Type]int
	specSorts map[string]*types.Named // pseudo types for contract-level sorts
	usedSorts map[Sort]bool
	opaqueCfg map[string]Sort // full type name -> sort (overrides)
	transp    map[string]bool
}

func newLayouter() *Layouter {
	return &Layouter{cache: map[types.Type][]Sort{}, sizes: map[types.Type]int{}, specSorts: map[string]*types.Named{},
		usedSorts: map[Sort]bool{}, opaqueCfg: map[string]Sort{}, transp: map[string]bool{}}
}

const maxFlat = 96

func typeFullName(n *types.Named) string {
	o := n.Obj()
	if o.Pkg() == nil {
		return o.Name()
	}
	return o.Pkg().Path() + "." + o.Name()
}

func mangle(s string) string {
	var b strings.Builder
	for _, c := range s {
		switch {
		case c >= 'a' && c <= 'z', c >= 'A' && c <= 'Z', c >= '0' && c <= '9', c == '_':
			b.WriteRune(c)
		default:
			b.WriteRune('_')
		}
	}
	return b.String()
}

const modPrefix = "github.com/consensys/gnark/"

// opaque reports whether a named type is abstracted to a single component.
func (l *Layouter) opaque(n *types.Named) (Sort, bool) {
	if n.Obj().Pkg() == nil {
		if _, ok := l.specSorts[n.Obj().Name()]; ok {
			return Sort(n.Obj().Name()), true
		}
		return "", false
	}
	full := typeFullName(n)
	if s, ok := l.opaqueCfg[full]; ok {
		return s, true
	}
	for pat, s := range l.opaqueCfg {
		if strings.HasPrefix(pat, "*/") && strings.HasSuffix(full, pat[1:]) {
			return s, true
		}
	}
	name := n.Obj().Name()
	path := n.Obj().Pkg().Path()
	if name == "Element" && strings.HasSuffix(path, "/fp") {
		return "Fp", true // base-field elements: pure data here (coordinates of points), kept apart from scalars
	}
	if name == "Element" && (strings.HasSuffix(path, "/fr") || strings.HasSuffix(path, "/fp") || strings.HasSuffix(path, "tinyfield") || strings.HasSuffix(path, "/field/goldilocks") || strings.Contains(path, "/field/")) {
		return SF, true
	}
	if path == "github.com/consensys/gnark/constraint" && (name == "U64" || name == "U32") {
		return SF, true
	}
	if full == "math/big.Int" {
		return SInt, true
	}
	if l.transp[full] {
		return "", false
	}
	if st, ok := n.Underlying().(*types.Struct); ok && !strings.HasPrefix(path+"/", modPrefix) && path != "github.com/consensys/gnark" {
		for i := 0; i < st.NumFields(); i++ {
			if !st.Field(i).Exported() {
				return Sort("O_" + mangle(n.Obj().Pkg().Name()+"_"+name)), true
			}
		}
		// all-exported external struct: transparent unless it is huge
		if l.sizeOf(st) > 24 {
			return Sort("O_" + mangle(n.Obj().Pkg().Name()+"_"+name)), true
		}
	}
	return "", false
}

func (l *Layouter) specType(name string) types.Type {
	switch name {
	case "int", "Int":
		return types.Typ[types.Int]
	case "bool", "Bool":
		return types.Typ[types.Bool]
	}
	if t, ok := l.specSorts[name]; ok {
		return t
	}
	t := types.NewNamed(types.NewTypeName(0, nil, name, nil), types.NewStruct(nil, nil), nil)
	l.specSorts[name] = t
	return t
}

func (l *Layouter) sizeOf(t types.Type) int {
	if n, ok := l.sizes[t]; ok {
		return n
	}
	n := l.sizeOf0(t)
	l.sizes[t] = n
	return n
}

func (l *Layouter) sizeOf0(t types.Type) int {
	t = types.Unalias(t)
	switch tt := t.(type) {
	case *types.Named:
		if _, ok := l.opaque(tt); ok {
			return 1
		}
		return l.sizeOf(tt.Underlying())
	case *types.Basic:
		return 1
	case *types.Pointer:
		return 2
	case *types.Slice:
		return 4
	case *types.Interface:
		return 2
	case *types.Map, *types.Chan, *types.Signature:
		return 1
	case *types.TypeParam:
		return 1
	case *types.Struct:
		n := 0
		for i := 0; i < tt.NumFields(); i++ {
			n += l.sizeOf(tt.Field(i).Type())
		}
		return n
	case *types.Array:
		return int(tt.Len()) * l.sizeOf(tt.Elem())
	case *types.Tuple:
		n := 0
		for i := 0; i < tt.Len(); i++ {
			n += l.sizeOf(tt.At(i).Type())
		}
		return n
	}
	panic(fmt.Sprintf("sizeOf: %T %v", t, t))
}

// flatOK: can a value of this type live in registers as a component vector
func (l *Layouter) flatOK(t types.Type) bool { return l.sizeOf(t) <= maxFlat }

func (l *Layouter) layout(t types.Type) []Sort {
	if s, ok := l.cache[t]; ok {
		return s
	}
	s := l.layout0(t)
	l.cache[t] = s
	for _, x := range s {
		l.usedSorts[x] = true
	}
	return s
}

func (l *Layouter) layout0(t types.Type) []Sort {
	t = types.Unalias(t)
	switch tt := t.(type) {
	case *types.Named:
		if s, ok := l.opaque(tt); ok {
			return []Sort{s}
		}
		return l.layout(tt.Underlying())
	case *types.Basic:
		switch {
		case tt.Info()&types.IsBoolean != 0:
			return []Sort{SBool}
		case tt.Info()&types.IsFloat != 0, tt.Info()&types.IsComplex != 0:
			return []Sort{"Float"}
		}
		return []Sort{SInt}
	case *types.Pointer:
		return []Sort{SInt, SInt}
	case *types.Slice:
		return []Sort{SInt, SInt, SInt, SInt}
	case *types.Interface:
		return []Sort{SInt, SInt}
	case *types.Map, *types.Chan, *types.Signature:
		return []Sort{SInt}
	case *types.TypeParam:
		if tt.Obj().Name() == "E" {
			return []Sort{SF}
		}
		return []Sort{Sort("TP_" + mangle(tt.Obj().Name()))}
	case *types.Struct:
		var r []Sort
		for i := 0; i < tt.NumFields(); i++ {
			r = append(r, l.layout(tt.Field(i).Type())...)
		}
		return r
	case *types.Array:
		n := int(tt.Len())
		e := l.layout(tt.Elem())
		if n*len(e) > maxFlat {
			return []Sort{Sort("BigArr")} // never materialised; see flatOK
		}
		var r []Sort
		for i := 0; i < n; i++ {
			r = append(r, e...)
		}
		return r
	case *types.Tuple:
		var r []Sort
		for i := 0; i < tt.Len(); i++ {
			r = append(r, l.layout(tt.At(i).Type())...)
		}
		return r
	}
	panic(fmt.Sprintf("layout: %T %v", t, t))
}

func (l *Layouter) fieldOffset(st *types.Struct, idx int) int {
	n := 0
	for i := 0; i < idx; i++ {
		n += l.sizeOf(st.Field(i).Type())
	}
	return n
}

func structOf(t types.Type) *types.Struct {
	t = types.Unalias(t)
	if p, ok := t.Underlying().(*types.Pointer); ok {
		t = p.Elem()
	}
	st, _ := t.Underlying().(*types.Struct)
	return st
}

func zeroOf(s Sort) string {
	switch s {
	case SInt:
		return "0"
	case SBool:
		return "false"
	case SF:
		return "f0"
	}
	return "zero_" + string(s)
}

// intRange returns (lo, hi) bounds (inclusive lo, exclusive hi as strings) for integer basic kinds
func intRange(t types.Type) (string, string, bool) {
	b, ok := types.Unalias(t).Underlying().(*types.Basic)
	if !ok || b.Info()&types.IsInteger == 0 {
		return "", "", false
	}
	switch b.Kind() {
	case types.Int8:
		return "(- 128)", "128", true
	case types.Int16:
		return "(- 32768)", "32768", true
	case types.Int32:
		return "(- 2147483648)", "2147483648", true
	case types.Int, types.Int64:
		return "(- 9223372036854775808)", "9223372036854775808", true
	case types.Uint8:
		return "0", "256", true
	case types.Uint16:
		return "0", "65536", true
	case types.Uint32:
		return "0", "4294967296", true
	case types.Uint, types.Uint64, types.Uintptr:
		return "0", "18446744073709551616", true
	case types.UntypedInt:
		return "", "", false
	}
	return "", "", false
}

func isUnsigned(t types.Type) bool {
	b, ok := types.Unalias(t).Underlying().(*types.Basic)
	return ok && b.Info()&types.IsUnsigned != 0
}

func isInteger(t types.Type) bool {
	b, ok := types.Unalias(t).Underlying().(*types.Basic)
	return ok && b.Info()&types.IsInteger != 0
}

func isString(t types.Type) bool {
	b, ok := types.Unalias(t).Underlying().(*types.Basic)
	return ok && b.Info()&types.IsString != 0
}

func isBool(t types.Type) bool {
	b, ok := types.Unalias(t).Underlying().(*types.Basic)
	return ok && b.Info()&types.IsBoolean != 0
}

// isIfaceT: a genuine interface type (a type parameter's underlying type is its constraint interface, but
// values of type-parameter type are not interface values)
func isIfaceT(t types.Type) bool {
	if _, isTP := types.Unalias(t).(*types.TypeParam); isTP {
		return false
	}
	_, ok := t.Underlying().(*types.Interface)
	return ok
}

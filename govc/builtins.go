package main

import (
	"os"
	"strings"
	"fmt"
	"go/token"
	"go/types"

	"golang.org/x/tools/go/ssa"
)

func (fr *Frame) execBuiltin(b *ssa.Builtin, c *ssa.CallCommon, resT types.Type, st *State, r string, v *ssa.Call) []string {
	vc := fr.vc
	name := b.Name()
	arg := func(i int) []string { return fr.val(c.Args[i]) }
	nameOf := "builtin"
	if v != nil {
		nameOf = v.Name()
	}
	switch name {
	case "len":
		a := arg(0)
		t := c.Args[0].Type()
		if et, ok := deref(t); ok {
			t = et
		}
		switch tt := t.Underlying().(type) {
		case *types.Slice:
			return []string{a[2]}
		case *types.Array:
			return []string{sInt(tt.Len())}
		case *types.Basic:
			vc.declFun("strlen", []Sort{SInt}, SInt)
			return []string{app("strlen", a[0])}
		case *types.Map:
			vc.declFun("maplen", []Sort{SInt}, SInt)
			l := vc.fresh("maplen", SInt)
			vc.assert(app(">=", l, "0"))
			return []string{l}
		}
		l := vc.fresh("len", SInt)
		vc.assert(app(">=", l, "0"))
		return []string{l}
	case "cap":
		a := arg(0)
		t := c.Args[0].Type()
		if et, ok := deref(t); ok {
			t = et
		}
		switch tt := t.Underlying().(type) {
		case *types.Slice:
			return []string{a[3]}
		case *types.Array:
			return []string{sInt(tt.Len())}
		}
		l := vc.fresh("cap", SInt)
		vc.assert(app(">=", l, "0"))
		return []string{l}
	case "max", "min":
		if !isInteger(resT) {
			return fr.freshVal(nameOf, resT)
		}
		cur := arg(0)[0]
		for i := 1; i < len(c.Args); i++ {
			n := arg(i)[0]
			if name == "max" {
				cur = sIte(app(">=", cur, n), cur, n)
			} else {
				cur = sIte(app("<=", cur, n), cur, n)
			}
		}
		return []string{vc.bind(nameOf, SInt, cur)}
	case "append":
		return fr.execAppend(c, resT, st, r, nameOf)
	case "copy":
		return fr.execCopy(c, st, r, nameOf)
	case "ssa:wrapnilchk":
		a := arg(0)
		fr.safetyObl("nil", r, sNot(sEq(a[0], "0")), c.Pos(), "nil receiver")
		return a
	case "delete", "clear":
		vc.unmodelled["map "+name+" in "+fr.fn.String()+" (map contents not modelled)"] = true
		return nil
	case "close", "print", "println":
		return nil
	case "recover":
		vc.unmodelled["recover() in "+fr.fn.String()] = true
		return fr.freshVal(nameOf, resT)
	}
	vc.unmodelled["builtin "+name] = true
	return fr.freshVal(nameOf, resT)
}

func uniqSorts(ss []Sort) []Sort {
	seen := map[Sort]bool{}
	var out []Sort
	for _, s := range ss {
		if !seen[s] {
			seen[s] = true
			out = append(out, s)
		}
	}
	return out
}

// append with Go's real semantics: in place when len+n <= cap.
func (fr *Frame) execAppend(c *ssa.CallCommon, resT types.Type, st *State, r string, nameOf string) []string {
	vc := fr.vc
	s := fr.val(c.Args[0])
	t := fr.val(c.Args[1])
	sl := c.Args[0].Type().Underlying().(*types.Slice)
	elem := sl.Elem()
	w := int64(fr.l().sizeOf(elem))
	var n string
	srcIsString := false
	if isString(c.Args[1].Type()) {
		vc.declFun("strlen", []Sort{SInt}, SInt)
		n = app("strlen", t[0])
		srcIsString = true
	} else {
		n = t[2]
	}
	if n == "0" {
		return s
	}
	pre := st.clone()
	fr.appendPre = &pre
	newLen := vc.bind(nameOf+"_len", SInt, app("+", s[2], n))
	inplace := vc.bindBool(nameOf+"_inplace", app("<=", newLen, s[3]))
	newRef := vc.allocRef(st, nameOf)
	vc.noteAllocType(fr.l(), newRef, elem, r)
	newCap := vc.fresh(nameOf+"_cap", SInt)
	vc.assert(app(">=", newCap, newLen))
	R := vc.bind(nameOf+"_ref", SInt, sIte(inplace, s[0], newRef))
	O := vc.bind(nameOf+"_off", SInt, sIte(inplace, s[1], "0"))
	C := vc.bind(nameOf+"_capv", SInt, sIte(inplace, s[3], newCap))
	if !fr.l().flatOK(elem) {
		vc.unmodelled["append of large elements"] = true
		return []string{R, O, newLen, C}
	}
	for _, srt := range uniqSorts(fr.l().layout(elem)) {
		row := vc.freshRaw("row_"+string(srt), "(Array Int "+string(srt)+")")
		oldS := vc.rowOf(st, srt, s[0])
		start := vc.bind(nameOf+"_start", SInt, sAdd(O, sMulC(s[2], w)))
		end := vc.bind(nameOf+"_end", SInt, sAdd(O, sMulC(newLen, w)))
		// (a) in place: everything outside the appended window is unchanged
		vc.assert(sImp(inplace, fmt.Sprintf("(forall ((q Int)) (! (=> (or (< q %s) (>= q %s)) (= (select %s q) (select %s q))) :pattern ((select %s q))))", start, end, row, oldS, row)))
		// (b) reallocated: prefix copied
		vc.assert(sImp(sNot(inplace), fmt.Sprintf("(forall ((q Int)) (! (=> (and (<= 0 q) (< q %s)) (= (select %s q) (select %s (+ %s q)))) :pattern ((select %s q))))", sMulC(s[2], w), row, oldS, s[1], row)))
		// (a'/b') the same two facts element-wise, through the uninterpreted element addressing that contract
		// expressions use (a consequence of (a)/(b); spares the solver the address arithmetic under quantifiers)
		if isIfaceT(elem) {
			lay := fr.l().layout(elem)
			for ci := 0; ci < int(w) && ci < len(lay); ci++ {
				if lay[ci] != srt {
					continue
				}
				nw := app("select", row, vc.atTerm(int(w), ci, O, "k"))
				od := app("select", oldS, vc.atTerm(int(w), ci, s[1], "k"))
				vc.assert(fmt.Sprintf("(forall ((k Int)) (! (=> (and (<= 0 k) (< k %s)) (= %s %s)) :pattern (%s)))", s[2], nw, od, nw))
			}
		}
		// (c) appended elements
		if !srcIsString {
			oldT := vc.rowOf(st, srt, t[0])
			if n == "1" {
				for j := int64(0); j < w; j++ {
					vc.assert(sEq(app("select", row, sAdd(start, sInt(j))), app("select", oldT, sAdd(t[1], sInt(j)))))
				}
			} else {
				vc.assert(fmt.Sprintf("(forall ((q Int)) (! (=> (and (<= %s q) (< q %s)) (= (select %s q) (select %s (+ %s (- q %s))))) :pattern ((select %s q))))", start, end, row, oldT, t[1], start, row))
			}
		}
		vc.setRowAlts(st, srt, R, row, []string{s[0], newRef})
	}
	// sequences of Variables: appending concatenates (stated when the contract under verification speaks of seqOf)
	if os.Getenv("GOVC_DEBUG") != "" {
		fmt.Fprintln(os.Stderr, "append:", isIfaceT(elem), srcIsString, fr.conMentions("seqOf"))
	}
	if isIfaceT(elem) && !srcIsString && fr.conMentions("seqOf") {
		sfOf, ok1 := fr.eng.cs.lookupSpec("", "seqOf")
		sfCat, ok2 := fr.eng.cs.lookupSpec("", "seqCat")
		if ok1 && ok2 {
			env := fr.newEnv(st)
			res := tval{T: c.Args[0].Type(), C: []string{R, O, newLen, C}}
			a0, e0 := env.applySpec(sfOf, []tval{{T: c.Args[0].Type(), C: s, St: fr.appendPre}})
			a1, e1 := env.applySpec(sfOf, []tval{{T: c.Args[1].Type(), C: t, St: fr.appendPre}})
			a2, e2 := env.applySpec(sfOf, []tval{res})
			if e0 == nil && e1 == nil && e2 == nil {
				if cat, e3 := env.applySpec(sfCat, []tval{a0, a1}); e3 == nil {
					vc.assert(sImp(r, sEq(a2.C[0], cat.C[0])))
					// the sequence of an empty slice is the empty sequence (stated for the operands of this append)
					if sfE, okE := fr.eng.cs.lookupSpec("", "seqEmpty"); okE {
						if em, e4 := env.applySpec(sfE, nil); e4 == nil {
							vc.assert(sImp(sAnd(r, sEq(s[2], "0")), sEq(a0.C[0], em.C[0])))
							vc.assert(sImp(sAnd(r, sEq(t[2], "0")), sEq(a1.C[0], em.C[0])))
						}
					}
				} else if os.Getenv("GOVC_DEBUG") != "" {
					fmt.Fprintln(os.Stderr, "seq fact:", e3)
				}
			} else if os.Getenv("GOVC_DEBUG") != "" {
				fmt.Fprintln(os.Stderr, "seq fact:", e0, e1, e2)
			}
		}
	}
	return []string{R, O, newLen, C}
}

func (fr *Frame) conMentions(word string) bool {
	top := fr
	for top.parent != nil {
		top = top.parent
	}
	con := top.con
	if con == nil {
		return false
	}
	has := func(cs []Clause) bool {
		for _, c := range cs {
			if strings.Contains(c.Text, word) {
				return true
			}
		}
		return false
	}
	if has(con.Requires) || has(con.Ensures) || has(con.Lemmas) {
		return true
	}
	for _, l := range con.Loops {
		if has(l) {
			return true
		}
	}
	return false
}

func (fr *Frame) execCopy(c *ssa.CallCommon, st *State, r string, nameOf string) []string {
	vc := fr.vc
	d := fr.val(c.Args[0])
	s := fr.val(c.Args[1])
	sl := c.Args[0].Type().Underlying().(*types.Slice)
	elem := sl.Elem()
	w := int64(fr.l().sizeOf(elem))
	var slen string
	srcIsString := isString(c.Args[1].Type())
	if srcIsString {
		vc.declFun("strlen", []Sort{SInt}, SInt)
		slen = app("strlen", s[0])
	} else {
		slen = s[2]
	}
	m := vc.bind(nameOf+"_n", SInt, sIte(app("<=", d[2], slen), d[2], slen))
	if !fr.l().flatOK(elem) {
		return []string{m}
	}
	for _, srt := range uniqSorts(fr.l().layout(elem)) {
		row := vc.freshRaw("row_"+string(srt), "(Array Int "+string(srt)+")")
		oldD := vc.rowOf(st, srt, d[0])
		lo := d[1]
		hi := vc.bind(nameOf+"_hi", SInt, sAdd(d[1], sMulC(m, w)))
		vc.assert(fmt.Sprintf("(forall ((q Int)) (! (=> (or (< q %s) (>= q %s)) (= (select %s q) (select %s q))) :pattern ((select %s q))))", lo, hi, row, oldD, row))
		if !srcIsString {
			oldS := vc.rowOf(st, srt, s[0])
			vc.assert(fmt.Sprintf("(forall ((q Int)) (! (=> (and (<= %s q) (< q %s)) (= (select %s q) (select %s (+ %s (- q %s))))) :pattern ((select %s q))))", lo, hi, row, oldS, s[1], lo, row))
		}
		vc.setRow(st, srt, d[0], row)
	}
	return []string{m}
}

// ---------------------------------------------------------------------------
// structured fork/join: `go closure()` is executed at the next join point
// (channel receive or Wait) of the parent.

type forkInfo struct {
	ci  *closureInfo
	pos token.Pos
}

func (fr *Frame) execGo(x *ssa.Go, st *State, r string) {
	c := x.Common()
	ci := fr.closureOf(c.Value)
	if ci == nil || len(c.Args) != 0 {
		fr.vc.unmodelled["go statement with non-closure callee in "+fr.fn.String()+": effects of the goroutine not modelled"] = true
		return
	}
	fr.eng.forks[fr] = append(fr.eng.forks[fr], forkInfo{ci, x.Pos()})
}

func (fr *Frame) joinForks(st *State, r string) {
	fs := fr.eng.forks[fr]
	if len(fs) == 0 {
		return
	}
	fr.eng.forks[fr] = nil
	for _, f := range fs {
		fr.vc.assumptions["fork/join rule: goroutine "+shortFuncName(f.ci.fn)+" executed at the join point; its footprint is assumed disjoint from the parent's accesses between fork and join"] = true
		tgt := callTarget{fn: f.ci.fn, clos: f.ci, name: f.ci.fn.String(), sig: f.ci.fn.Signature}
		fr.callTarget(tgt, nil, nil, f.ci.fn.Signature.Results(), st, r, f.pos, nil)
	}
}

package main

// SMT term construction (s-expression strings) and solver racing.

import (
	"runtime"
	"strconv"
	"bytes"
	"context"
	"fmt"
	"os"
	"os/exec"
	"path/filepath"
	"strings"
	"sync"
	"time"
)

type Sort string

const (
	SInt  Sort = "Int"
	SBool Sort = "Bool"
	SF    Sort = "F"
)

func app(op string, args ...string) string {
	if len(args) == 0 {
		return op
	}
	return "(" + op + " " + strings.Join(args, " ") + ")"
}

func sAnd(xs ...string) string {
	var o []string
	for _, x := range xs {
		if x == "true" {
			continue
		}
		if x == "false" {
			return "false"
		}
		o = append(o, x)
	}
	switch len(o) {
	case 0:
		return "true"
	case 1:
		return o[0]
	}
	return app("and", o...)
}

func sOr(xs ...string) string {
	var o []string
	for _, x := range xs {
		if x == "false" {
			continue
		}
		if x == "true" {
			return "true"
		}
		o = append(o, x)
	}
	switch len(o) {
	case 0:
		return "false"
	case 1:
		return o[0]
	}
	return app("or", o...)
}

func sNot(x string) string {
	switch x {
	case "true":
		return "false"
	case "false":
		return "true"
	}
	if strings.HasPrefix(x, "(not ") && balanced(x[5:len(x)-1]) {
		return x[5 : len(x)-1]
	}
	return app("not", x)
}

func balanced(s string) bool {
	d := 0
	for _, c := range s {
		if c == '(' {
			d++
		} else if c == ')' {
			d--
			if d < 0 {
				return false
			}
		}
	}
	return d == 0
}

func sImp(a, b string) string {
	if a == "true" {
		return b
	}
	if a == "false" || b == "true" {
		return "true"
	}
	return app("=>", a, b)
}

func isNumLit(s string) bool {
	if s == "" {
		return false
	}
	for _, c := range s {
		if c < '0' || c > '9' {
			return false
		}
	}
	return true
}

func sEq(a, b string) string {
	if a == b {
		return "true"
	}
	if isNumLit(a) && isNumLit(b) {
		return "false"
	}
	return app("=", a, b)
}

func sIte(c, a, b string) string {
	if c == "true" {
		return a
	}
	if c == "false" {
		return b
	}
	if a == b {
		return a
	}
	return app("ite", c, a, b)
}

func sInt(n int64) string {
	if n < 0 {
		return fmt.Sprintf("(- %d)", -n)
	}
	return fmt.Sprintf("%d", n)
}

func sAdd(a, b string) string {
	if a == "0" {
		return b
	}
	if b == "0" {
		return a
	}
	return app("+", a, b)
}

func sMulC(a string, c int64) string {
	if c == 1 {
		return a
	}
	if c == 0 || a == "0" {
		return "0"
	}
	if isNumLit(a) {
		if n, err := strconv.ParseInt(a, 10, 64); err == nil && n < 1<<31 && c < 1<<31 {
			return sInt(n * c)
		}
	}
	return app("*", sInt(c), a)
}

// ghost memories are named "<elem sort>#<channel>": same element sort, separate memory
func (s Sort) elem() string {
	if i := strings.Index(string(s), "#"); i >= 0 {
		return string(s)[:i]
	}
	return string(s)
}

func memSort(s Sort) string { return "(Array Int (Array Int " + s.elem() + "))" }

// ---------------------------------------------------------------------------
// solver back ends

type SolverResult struct {
	Status  string // unsat | sat | unknown | timeout | error
	Backend string
	Ms      int64
	Output  string
}

type backend struct {
	name string
	argv func(file string, timeoutS int) []string
}

var backends = []backend{
	{"z3-5.1.0", func(f string, t int) []string { return []string{"z3-new", fmt.Sprintf("-T:%d", t), f} }},
	{"z3-4.8.12", func(f string, t int) []string { return []string{"/usr/bin/z3", fmt.Sprintf("-T:%d", t), f} }},
	{"cvc5-1.0", func(f string, t int) []string {
		return []string{"cvc5", fmt.Sprintf("--tlimit=%d", t*1000), "--lang=smt2", f}
	}},
	// the same solvers with other random seeds: quantifier instantiation is sensitive to the search order,
	// and a portfolio of seeds makes a proof that exists much less dependent on luck and machine load
	{"z3-5.1.0/seed3", func(f string, t int) []string {
		return []string{"z3-new", fmt.Sprintf("-T:%d", t), "smt.random_seed=3", "sat.random_seed=3", f}
	}},
	{"z3-5.1.0/seed7", func(f string, t int) []string {
		return []string{"z3-new", fmt.Sprintf("-T:%d", t), "smt.random_seed=7", "sat.random_seed=7", f}
	}},
	{"z3-4.8.12/seed5", func(f string, t int) []string {
		return []string{"/usr/bin/z3", fmt.Sprintf("-T:%d", t), "smt.random_seed=5", f}
	}},
	{"z3-5.1.0/case3", func(f string, t int) []string {
		return []string{"z3-new", fmt.Sprintf("-T:%d", t), "auto_config=false", "smt.case_split=3", f}
	}},
	{"z3-4.8.12/seed11", func(f string, t int) []string {
		return []string{"/usr/bin/z3", fmt.Sprintf("-T:%d", t), "smt.random_seed=11", f}
	}},
	{"z3-4.8.12/seed42", func(f string, t int) []string {
		return []string{"/usr/bin/z3", fmt.Sprintf("-T:%d", t), "smt.random_seed=42", f}
	}},
	{"z3-4.8.12/seed77", func(f string, t int) []string {
		return []string{"/usr/bin/z3", fmt.Sprintf("-T:%d", t), "smt.random_seed=77", f}
	}},
}

// further seeds, tried only in the second round (few undecided obligations left)
var moreBackends = func() []backend {
	var out []backend
	for _, sd := range []int{1, 2, 3, 4, 9, 13} {
		sd := sd
		out = append(out, backend{fmt.Sprintf("z3-4.8.12/seed%d", sd), func(f string, t int) []string {
			return []string{"/usr/bin/z3", fmt.Sprintf("-T:%d", t), fmt.Sprintf("smt.random_seed=%d", sd), f}
		}})
	}
	for _, sd := range []int{11, 21} {
		sd := sd
		out = append(out, backend{fmt.Sprintf("z3-5.1.0/seed%d", sd), func(f string, t int) []string {
			return []string{"z3-new", fmt.Sprintf("-T:%d", t), fmt.Sprintf("smt.random_seed=%d", sd), fmt.Sprintf("sat.random_seed=%d", sd), f}
		}})
	}
	return out
}()

// procSlots bounds the number of solver processes running at once by the number of cores: a solver's time
// limit is wall-clock time, which is only meaningful when the process has a core to itself (the races of
// several obligations would otherwise starve each other and turn slow-but-provable goals into timeouts)
var procSlots = make(chan struct{}, maxInt(2, runtime.NumCPU()))

func maxInt(a, b int) int {
	if a > b {
		return a
	}
	return b
}

func runOne(ctx context.Context, b backend, file string, timeoutS int) SolverResult {
	select {
	case procSlots <- struct{}{}:
		defer func() { <-procSlots }()
	case <-ctx.Done():
		return SolverResult{Status: "timeout", Backend: b.name}
	}
	start := time.Now()
	argv := b.argv(file, timeoutS)
	cctx, cancel := context.WithTimeout(ctx, time.Duration(timeoutS+2)*time.Second)
	defer cancel()
	cmd := exec.CommandContext(cctx, argv[0], argv[1:]...)
	var out bytes.Buffer
	cmd.Stdout = &out
	cmd.Stderr = &out
	_ = cmd.Run()
	ms := time.Since(start).Milliseconds()
	s := out.String()
	first := strings.TrimSpace(strings.SplitN(s, "\n", 2)[0])
	st := "unknown"
	switch {
	case first == "unsat":
		st = "unsat"
	case first == "sat":
		st = "sat"
	case strings.Contains(s, "timeout") || cctx.Err() != nil:
		st = "timeout"
	case strings.HasPrefix(first, "(error") || strings.Contains(first, "rror"):
		st = "error"
	}
	return SolverResult{Status: st, Backend: b.name, Ms: ms, Output: s}
}

// solve races the back ends on one query. A first cheap attempt with z3-new,
// then all three in parallel.
// solve: one quick attempt, then a race of all back ends; when the race ends without a definite answer it
// is repeated once with three times the budget (a timeout on a loaded machine must not become an alarm).
func solve(query string, dir, name string, timeoutS int) SolverResult {
	r := solveOnce(query, dir, name, timeoutS, true)
	if r.Status == "unsat" || r.Status == "sat" {
		return r
	}
	r2 := solveOnce(query, dir, name, 3*timeoutS, false)
	if r2.Status == "unsat" || r2.Status == "sat" {
		return r2
	}
	return r
}

func solveOnce(query string, dir, name string, timeoutS int, quickFirst bool) SolverResult {
	file := filepath.Join(dir, sanitize(name)+".smt2")
	if err := os.WriteFile(file, []byte(query), 0o644); err != nil {
		return SolverResult{Status: "error", Output: err.Error()}
	}
	r := SolverResult{Status: "timeout"}
	if quickFirst {
		r = runOne(context.Background(), backends[0], file, 3)
		if r.Status == "unsat" || r.Status == "sat" {
			return r
		}
	}
	ctx, cancel := context.WithCancel(context.Background())
	defer cancel()
	bs := backends
	if !quickFirst {
		// second round: the wider portfolio
		bs = append(append([]backend{}, backends...), moreBackends...)
	}
	ch := make(chan SolverResult, len(bs))
	var wg sync.WaitGroup
	for _, b := range bs {
		wg.Add(1)
		go func(b backend) {
			defer wg.Done()
			q := file
			if b.name == "cvc5-1.0" {
				// cvc5 needs the logic set and rejects some z3-isms; same text otherwise
				q = file
			}
			ch <- runOne(ctx, b, q, timeoutS)
		}(b)
	}
	go func() { wg.Wait(); close(ch) }()
	best := r
	for rr := range ch {
		if rr.Status == "unsat" || rr.Status == "sat" {
			cancel()
			return rr
		}
		if best.Status == "error" || (best.Status == "timeout" && rr.Status == "unknown") {
			best = rr
		}
	}
	return best
}

func sanitize(s string) string {
	var b strings.Builder
	for _, c := range s {
		switch {
		case c >= 'a' && c <= 'z', c >= 'A' && c <= 'Z', c >= '0' && c <= '9', c == '_', c == '-', c == '.':
			b.WriteRune(c)
		default:
			b.WriteRune('_')
		}
	}
	r := b.String()
	if len(r) > 180 {
		r = r[:180]
	}
	return r
}

// runSession checks a subset of one function's obligations in a single
// incremental z3 process (push/pop around each goal). Results are advisory:
// anything not answered `unsat` (resp. `sat` for cover checks) is re-checked
// standalone by solve().
func runSession(vc *VC, part []*Obl, dir string, w int) {
	var b strings.Builder
	b.WriteString("(set-option :timeout 4000)\n")
	b.WriteString(vc.header())
	at := map[int][]*Obl{}
	for _, o := range part {
		at[o.LineIdx] = append(at[o.LineIdx], o)
	}
	var order []*Obl
	emitObl := func(o *Obl) {
		b.WriteString("(push 1)\n(assert " + o.Reach + ")\n")
		if !o.Cover {
			b.WriteString("(assert " + sNot(o.Goal) + ")\n")
		}
		b.WriteString("(check-sat)\n(pop 1)\n")
		order = append(order, o)
	}
	for i, l := range vc.lines {
		for _, o := range at[i] {
			emitObl(o)
		}
		b.WriteString(l)
		b.WriteByte('\n')
	}
	for _, o := range at[len(vc.lines)] {
		emitObl(o)
	}
	file := filepath.Join(dir, sanitize(vc.funcName)+fmt.Sprintf(".session%d.smt2", w))
	if err := os.WriteFile(file, []byte(b.String()), 0o644); err != nil {
		return
	}
	start := time.Now()
	ctx, cancel := context.WithTimeout(context.Background(), time.Duration(5*len(order)+30)*time.Second)
	defer cancel()
	cmd := exec.CommandContext(ctx, "z3-new", file)
	var out bytes.Buffer
	cmd.Stdout = &out
	_ = cmd.Run()
	ms := time.Since(start).Milliseconds()
	var answers []string
	for _, l := range strings.Split(out.String(), "\n") {
		l = strings.TrimSpace(l)
		switch l {
		case "sat", "unsat", "unknown", "timeout":
			answers = append(answers, l)
		}
	}
	per := ms / int64(len(order)+1)
	for i, o := range order {
		if i < len(answers) {
			o.Result = SolverResult{Status: answers[i], Backend: "z3-5.1.0(session)", Ms: per}
		} else {
			o.Result = SolverResult{Status: "unknown", Backend: "z3-5.1.0(session)", Ms: per}
		}
	}
}

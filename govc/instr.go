package main

import (
	"fmt"
	"go/token"
	"go/types"
	"math/big"
	"strings"

	"golang.org/x/tools/go/ssa"
)

func pow2str(n int) string {
	return new(big.Int).Lsh(big.NewInt(1), uint(n)).String()
}

func bitSize(t types.Type) int {
	b, ok := types.Unalias(t).Underlying().(*types.Basic)
	if !ok {
		return 0
	}
	switch b.Kind() {
	case types.Int8, types.Uint8:
		return 8
	case types.Int16, types.Uint16:
		return 16
	case types.Int32, types.Uint32:
		return 32
	case types.Int, types.Int64, types.Uint, types.Uint64, types.Uintptr:
		return 64
	}
	return 0
}

// wrap reduces a mathematical integer into the range of t (exact Go conversion semantics)
func wrap(x string, t types.Type) string {
	n := bitSize(t)
	if n == 0 {
		return x
	}
	m := pow2str(n)
	if isUnsigned(t) {
		return app("mod", x, m)
	}
	h := pow2str(n - 1)
	// ((x + 2^(n-1)) mod 2^n) - 2^(n-1)
	return app("-", app("mod", app("+", x, h), m), h)
}

func (fr *Frame) execBlock(b *ssa.BasicBlock, st *State) {
	r := fr.reach[b]
	for _, in := range b.Instrs {
		fr.execInstr(in, st, r)
	}
}

// holdsArray: does a value of type t contain an array (into which a slice could point)?
func holdsArray(t types.Type, depth int) bool {
	if depth > 8 {
		return true
	}
	switch tt := types.Unalias(t).Underlying().(type) {
	case *types.Array:
		return true
	case *types.Struct:
		for i := 0; i < tt.NumFields(); i++ {
			if holdsArray(tt.Field(i).Type(), depth+1) {
				return true
			}
		}
		return false
	case *types.TypeParam:
		return true
	}
	if _, isTP := types.Unalias(t).(*types.TypeParam); isTP {
		return true
	}
	return false
}

func (fr *Frame) execInstr(in ssa.Instruction, st *State, r string) {
	vc := fr.vc
	switch x := in.(type) {
	case *ssa.Phi, *ssa.DebugRef, *ssa.If, *ssa.Jump:
		return
	case *ssa.Alloc:
		elem := x.Type().Underlying().(*types.Pointer).Elem()
		ref := vc.allocRef(st, x.Name())
		vc.noteAllocType(fr.l(), ref, elem, r)
		if fr.l().flatOK(elem) {
			seen := map[Sort]bool{}
			for _, s := range fr.l().layout(elem) {
				if !seen[s] {
					seen[s] = true
					vc.zeroRow(st, s, ref)
				}
			}
		} else if arr, ok := elem.Underlying().(*types.Array); ok && fr.l().flatOK(arr.Elem()) {
			seen := map[Sort]bool{}
			for _, s := range fr.l().layout(arr.Elem()) {
				if !seen[s] {
					seen[s] = true
					vc.zeroRow(st, s, ref)
				}
			}
		}
		fr.regs[x] = []string{ref, "0"}
		if fr.nonEsc[x] {
			fr.protected = append(fr.protected, ref)
		}
		if !holdsArray(elem, 0) {
			// the cell of a variable without array components: no slice points into it (guarded by the path,
			// as the same address is a different object on another path)
			vc.declFun("isCell", []Sort{SInt}, SBool)
			vc.assert(sImp(r, app("isCell", ref)))
		}
	case *ssa.MakeSlice:
		elem := x.Type().Underlying().(*types.Slice).Elem()
		ln := fr.val(x.Len)[0]
		cp := fr.val(x.Cap)[0]
		fr.safetyObl("makeslice", r, sAnd(app("<=", "0", ln), app("<=", ln, cp)), x.Pos(), "make: 0 <= len <= cap")
		ref := vc.allocRef(st, x.Name())
		vc.noteAllocType(fr.l(), ref, elem, r)
		if fr.l().flatOK(elem) {
			seen := map[Sort]bool{}
			for _, s := range fr.l().layout(elem) {
				if !seen[s] {
					seen[s] = true
					vc.zeroRow(st, s, ref)
				}
			}
		}
		fr.regs[x] = []string{ref, "0", ln, cp}
	case *ssa.MakeMap, *ssa.MakeChan:
		ref := vc.allocRef(st, in.(ssa.Value).Name())
		fr.regs[in.(ssa.Value)] = []string{ref}
		if _, ok := in.(*ssa.MakeMap); ok {
			fr.mapInit(st, ref, in.(ssa.Value).Type())
		}
	case *ssa.MakeClosure:
		ref := vc.allocRef(st, x.Name())
		ci := &closureInfo{fn: x.Fn.(*ssa.Function), id: ref}
		for _, b := range x.Bindings {
			ci.bindings = append(ci.bindings, fr.val(b))
		}
		fr.clos[x] = ci
		fr.regs[x] = []string{ref}
	case *ssa.FieldAddr:
		p := fr.val(x.X)
		fr.safetyObl("nil", r, sNot(sEq(p[0], "0")), x.Pos(), "nil pointer dereference (field address)")
		stt := structOf(x.X.Type())
		off := fr.l().fieldOffset(stt, x.Field)
		fr.bindReg(x, []string{p[0], vc.addSlot(p[1], off)})
	case *ssa.Field:
		v := fr.val(x.X)
		stt := x.X.Type().Underlying().(*types.Struct)
		off := fr.l().fieldOffset(stt, x.Field)
		n := fr.l().sizeOf(stt.Field(x.Field).Type())
		if off+n <= len(v) {
			fr.regs[x] = v[off : off+n]
		} else {
			fr.regs[x] = fr.freshVal(x.Name(), x.Type())
		}
	case *ssa.IndexAddr:
		base := fr.val(x.X)
		idx := fr.val(x.Index)[0]
		switch t := x.X.Type().Underlying().(type) {
		case *types.Slice:
			w := fr.l().sizeOf(t.Elem())
			fr.safetyObl("index", r, sAnd(app("<=", "0", idx), app("<", idx, base[2])), x.Pos(), "index out of range")
			fr.bindReg(x, []string{base[0], vc.elemSlot(base[1], idx, w)})
		case *types.Pointer:
			arr := t.Elem().Underlying().(*types.Array)
			w := fr.l().sizeOf(arr.Elem())
			fr.safetyObl("nil", r, sNot(sEq(base[0], "0")), x.Pos(), "nil pointer dereference (array index)")
			fr.safetyObl("index", r, sAnd(app("<=", "0", idx), app("<", idx, sInt(arr.Len()))), x.Pos(), "index out of range")
			fr.bindReg(x, []string{base[0], vc.elemSlot(base[1], idx, w)})
		default:
			fr.regs[x] = fr.freshVal(x.Name(), x.Type())
		}
	case *ssa.Index:
		idx := fr.val(x.Index)[0]
		switch t := x.X.Type().Underlying().(type) {
		case *types.Array:
			fr.safetyObl("index", r, sAnd(app("<=", "0", idx), app("<", idx, sInt(t.Len()))), x.Pos(), "index out of range")
			v := fr.val(x.X)
			w := fr.l().sizeOf(t.Elem())
			if c, ok := x.Index.(*ssa.Const); ok && fr.l().flatOK(t) && c.Value != nil {
				k := int(c.Int64())
				if (k+1)*w <= len(v) {
					fr.regs[x] = v[k*w : (k+1)*w]
					return
				}
			}
			fr.regs[x] = fr.freshVal(x.Name(), x.Type())
		default: // string index
			s := fr.val(x.X)[0]
			vc.declFun("strlen", []Sort{SInt}, SInt)
			fr.safetyObl("index", r, sAnd(app("<=", "0", idx), app("<", idx, app("strlen", s))), x.Pos(), "string index out of range")
			c := fr.freshVal(x.Name(), x.Type())
			fr.assumeTypeFacts(r, x.Type(), c, st)
			fr.regs[x] = c
		}
	case *ssa.UnOp:
		fr.execUnOp(x, st, r)
	case *ssa.BinOp:
		fr.execBinOp(x, st, r)
	case *ssa.Store:
		p := fr.val(x.Addr)
		fr.safetyObl("nil", r, sNot(sEq(p[0], "0")), x.Pos(), "nil pointer dereference (store)")
		fr.store(st, p, x.Val.Type(), fr.val(x.Val))
	case *ssa.Slice:
		fr.execSlice(x, st, r)
	case *ssa.Convert:
		fr.execConvert(x, st, r)
	case *ssa.ChangeType:
		fr.regs[x] = fr.val(x.X)
	case *ssa.ChangeInterface:
		fr.regs[x] = fr.val(x.X)
	case *ssa.MakeInterface:
		fr.regs[x] = fr.eng.box(vc, x.X.Type(), fr.val(x.X))
	case *ssa.TypeAssert:
		fr.execTypeAssert(x, st, r)
	case *ssa.Extract:
		tup := x.Tuple.Type().(*types.Tuple)
		v := fr.val(x.Tuple)
		off := 0
		for i := 0; i < x.Index; i++ {
			off += fr.l().sizeOf(tup.At(i).Type())
		}
		n := fr.l().sizeOf(tup.At(x.Index).Type())
		if off+n <= len(v) {
			fr.regs[x] = v[off : off+n]
		} else {
			fr.regs[x] = fr.freshVal(x.Name(), x.Type())
		}
	case *ssa.Call:
		fr.execCall(x, x.Common(), st, r)
	case *ssa.Go:
		fr.execGo(x, st, r)
	case *ssa.Defer:
		fr.defers = append(fr.defers, x)
	case *ssa.RunDefers:
		for i := len(fr.defers) - 1; i >= 0; i-- {
			d := fr.defers[i]
			// conservative: a deferred call registered on some path only is executed as if always
			// registered when it is a pure unlock/logging call, otherwise modelled as unknown call
			fr.execCall(nil, d.Common(), st, r)
		}
	case *ssa.Return:
		if fr.splitReturn[x.Block()] {
			return
		}
		var vals []string
		for _, res := range x.Results {
			vals = append(vals, fr.val(res)...)
		}
		fr.rets = append(fr.rets, retInfo{reach: r, vals: vals, st: st.clone(), pos: x.Pos(), blk: x.Block()})
	case *ssa.Panic:
		msg := "explicit panic"
		if mi, ok := x.X.(*ssa.MakeInterface); ok {
			if c, ok := mi.X.(*ssa.Const); ok && c.Value != nil {
				msg = "panic(" + c.Value.ExactString() + ")"
			}
		}
		fr.panicReach = append(fr.panicReach, r)
		if fr.safety {
			g := "false"
			if fr.top && fr.con != nil && fr.con.PanicsOnly != nil {
				env := fr.newEnv(&fr.entry)
				if c, err := env.evalBool(fr.con.PanicsOnly.E); err == nil {
					g = c
				}
			}
			vc.oblig("panic"+fr.suffix, "", r, g, fr.pos(x.Pos()), fr.safetyProps, msg+": "+fr.srcLine(x.Pos()))
		}
	case *ssa.Lookup:
		fr.execLookup(x, st, r)
	case *ssa.MapUpdate:
		fr.execMapUpdate(x, st, r)
	case *ssa.Range:
		fr.regs[x] = []string{vc.fresh("range", SInt)}
		if _, isMap := x.X.Type().Underlying().(*types.Map); isMap {
			vc.unmodelled["range over map in "+fr.fn.String()+" (iteration order and coverage unconstrained)"] = true
		}
	case *ssa.Next:
		c := fr.freshVal(x.Name(), x.Type())
		fr.assumeTypeFacts(r, x.Type(), c, st)
		fr.regs[x] = c
	case *ssa.Select:
		c := fr.freshVal(x.Name(), x.Type())
		fr.regs[x] = c
		vc.unmodelled["select statement in "+fr.fn.String()] = true
	case *ssa.Send:
		// no model of channel contents
	case *ssa.SliceToArrayPointer:
		s := fr.val(x.X)
		arr := x.Type().Underlying().(*types.Pointer).Elem().Underlying().(*types.Array)
		fr.safetyObl("slice", r, app(">=", s[2], sInt(arr.Len())), x.Pos(), "slice to array pointer: length")
		w := fr.l().sizeOf(arr.Elem())
		_ = w
		fr.bindReg(x, []string{s[0], s[1]})
	case *ssa.MultiConvert:
		c := fr.freshVal(x.Name(), x.Type())
		fr.regs[x] = c
	default:
		vc.unmodelled[fmt.Sprintf("instruction %T in %s", in, fr.fn.String())] = true
		if v, ok := in.(ssa.Value); ok {
			fr.regs[v] = fr.freshVal(v.Name(), v.Type())
		}
	}
}

func (fr *Frame) execUnOp(x *ssa.UnOp, st *State, r string) {
	vc := fr.vc
	switch x.Op {
	case token.MUL:
		p := fr.val(x.X)
		fr.safetyObl("nil", r, sNot(sEq(p[0], "0")), x.Pos(), "nil pointer dereference (load)")
		v := fr.load(st, p, x.Type())
		fr.bindReg(x, v)
		fr.assumeTypeFacts(r, x.Type(), fr.regs[x], st)
		fr.notePointer(r, fr.regs[x], x.Type())
		// a slice/pointer loaded from a field of a struct S does not point into the allocation holding that S,
		// unless S itself has a component such a reference could point at (an array or a field of the element type)
		if fa, ok := x.X.(*ssa.FieldAddr); ok && len(p) == 2 {
			if et, isRef := refElem(x.Type()); isRef {
				if pt, ok := types.Unalias(fa.X.Type()).Underlying().(*types.Pointer); ok {
					if stt, ok := pt.Elem().Underlying().(*types.Struct); ok && !hasInterior(stt, et, 0) && len(fr.regs[x]) >= 1 {
						vc.assert(sImp(r, sOr(sEq(fr.regs[x][0], "0"), sNot(sEq(fr.regs[x][0], p[0])))))
						vc.assumptions["a reference loaded from a struct field does not point into the allocation of that struct when the struct has no component of the referenced type (Go type safety; enclosing objects of other types are not considered)"] = true
					}
				}
			}
		}
		if g, ok := x.X.(*ssa.Global); ok && fr.eng.initNonNil(g) {
			vc.assert(sNot(sEq(fr.regs[x][0], "0")))
		}
	case token.NOT:
		fr.regs[x] = []string{sNot(fr.val(x.X)[0])}
	case token.SUB:
		v := fr.val(x.X)[0]
		if isInteger(x.Type()) {
			t := app("-", v)
			if isUnsigned(x.Type()) {
				t = wrap(t, x.Type())
			}
			fr.bindReg(x, []string{t})
		} else {
			fr.regs[x] = fr.freshVal(x.Name(), x.Type())
		}
	case token.ARROW:
		// channel receive: value unconstrained; join point for forked closures
		c := fr.freshVal(x.Name(), x.Type())
		fr.assumeTypeFacts(r, x.Type(), c, st)
		fr.regs[x] = c
		fr.joinForks(st, r)
	case token.XOR:
		v := fr.val(x.X)[0]
		if isInteger(x.Type()) {
			if isUnsigned(x.Type()) {
				fr.bindReg(x, []string{app("-", app("-", pow2str(bitSize(x.Type())), "1"), v)})
			} else {
				fr.bindReg(x, []string{app("-", app("-", v), "1")})
			}
		} else {
			fr.regs[x] = fr.freshVal(x.Name(), x.Type())
		}
	default:
		fr.regs[x] = fr.freshVal(x.Name(), x.Type())
		vc.unmodelled["unary op "+x.Op.String()] = true
	}
}

func goDiv(a, b string) string {
	// truncated division from SMT's euclidean div
	return sIte(app(">=", a, "0"), app("div", a, b), app("-", app("div", app("-", a), b)))
}

func goRem(a, b string) string {
	return app("-", a, app("*", b, goDiv(a, b)))
}

func (fr *Frame) execBinOp(x *ssa.BinOp, st *State, r string) {
	vc := fr.vc
	a := fr.val(x.X)
	b := fr.val(x.Y)
	xt := x.X.Type()
	switch x.Op {
	case token.EQL, token.NEQ:
		var eqs []string
		for i := range a {
			if i < len(b) {
				eqs = append(eqs, sEq(a[i], b[i]))
			}
		}
		e := sAnd(eqs...)
		if _, isIface := xt.Underlying().(*types.Interface); isIface && len(a) == 2 {
			// interface equality: same dynamic type and equal boxed value
			e = sAnd(sEq(a[0], b[0]), sEq(a[1], b[1]))
		}
		if x.Op == token.NEQ {
			e = sNot(e)
		}
		fr.bindReg(x, []string{e})
		return
	}
	if isInteger(xt) || (isInteger(x.Type()) && (x.Op == token.SHL || x.Op == token.SHR)) {
		var t string
		A, B := a[0], b[0]
		switch x.Op {
		case token.ADD:
			t = app("+", A, B)
		case token.SUB:
			t = app("-", A, B)
		case token.MUL:
			t = app("*", A, B)
		case token.QUO:
			fr.safetyObl("div", r, sNot(sEq(B, "0")), x.Pos(), "integer divide by zero")
			if isUnsigned(xt) {
				t = app("div", A, B)
			} else if c, ok := x.Y.(*ssa.Const); ok && c.Value != nil && c.Int64() > 0 {
				t = goDiv(A, B)
			} else {
				t = sIte(app(">", B, "0"), goDiv(A, B), app("-", goDiv(A, app("-", B))))
			}
		case token.REM:
			fr.safetyObl("div", r, sNot(sEq(B, "0")), x.Pos(), "integer divide by zero")
			if isUnsigned(xt) {
				t = app("mod", A, B)
			} else {
				t = sIte(app(">=", A, "0"), app("mod", A, B), app("-", app("mod", app("-", A), B)))
			}
		case token.LSS:
			fr.bindReg(x, []string{app("<", A, B)})
			return
		case token.LEQ:
			fr.bindReg(x, []string{app("<=", A, B)})
			return
		case token.GTR:
			fr.bindReg(x, []string{app(">", A, B)})
			return
		case token.GEQ:
			fr.bindReg(x, []string{app(">=", A, B)})
			return
		case token.SHL:
			if c, ok := x.Y.(*ssa.Const); ok && c.Value != nil && c.Int64() < 256 {
				t = app("*", A, pow2str(int(c.Int64())))
			} else {
				vc.declFun("pow2", []Sort{SInt}, SInt)
				t = app("*", A, app("pow2", B))
				fr.eng.needPow2 = true
			}
		case token.SHR:
			if c, ok := x.Y.(*ssa.Const); ok && c.Value != nil && c.Int64() < 256 {
				t = app("div", A, pow2str(int(c.Int64())))
			} else {
				vc.declFun("pow2", []Sort{SInt}, SInt)
				t = app("div", A, app("pow2", B))
				fr.eng.needPow2 = true
			}
		case token.AND:
			if c, ok := x.Y.(*ssa.Const); ok && c.Value != nil && isPow2Minus1(c) && isUnsigned(xt) {
				t = app("mod", A, new(big.Int).Add(constBig(c), big.NewInt(1)).String())
			} else {
				vc.declFun("bitand", []Sort{SInt, SInt}, SInt)
				t = app("bitand", A, B)
				if isUnsigned(xt) {
					res := vc.fresh(x.Name(), SInt)
					vc.assert(sEq(res, t))
					vc.assert(sAnd(app("<=", "0", res), app("<=", res, A), app("<=", res, B)))
					fr.regs[x] = []string{res}
					return
				}
			}
		case token.OR:
			vc.declFun("bitor", []Sort{SInt, SInt}, SInt)
			t = app("bitor", A, B)
		case token.XOR:
			vc.declFun("bitxor", []Sort{SInt, SInt}, SInt)
			t = app("bitxor", A, B)
		case token.AND_NOT:
			vc.declFun("bitandnot", []Sort{SInt, SInt}, SInt)
			t = app("bitandnot", A, B)
		default:
			fr.regs[x] = fr.freshVal(x.Name(), x.Type())
			return
		}
		rt := x.Type()
		switch x.Op {
		case token.ADD, token.SUB, token.MUL, token.SHL:
			if isUnsigned(rt) {
				t = wrap(t, rt)
			} else if fr.eng.checkedArith(fr) {
				lo, hi, _ := intRange(rt)
				fr.safetyObl("ovf", r, sAnd(app("<=", lo, t), app("<", t, hi)), x.Pos(), "signed integer overflow")
			} else {
				vc.assumptions["signed machine arithmetic treated as mathematical in "+fr.fn.String()] = true
			}
		case token.OR, token.XOR, token.AND_NOT:
			res := vc.fresh(x.Name(), SInt)
			vc.assert(sEq(res, t))
			// the operators on single bits (all that the uninterpreted bitor / bitxor are given)
			bits := sAnd(sOr(sEq(A, "0"), sEq(A, "1")), sOr(sEq(B, "0"), sEq(B, "1")))
			switch x.Op {
			case token.XOR:
				vc.assert(sImp(bits, sEq(t, fmt.Sprintf("(ite (= %s %s) 0 1)", A, B))))
			case token.OR:
				vc.assert(sImp(bits, sEq(t, fmt.Sprintf("(ite (and (= %s 0) (= %s 0)) 0 1)", A, B))))
			}
			fr.assumeTypeFacts("true", rt, []string{res}, st)
			fr.regs[x] = []string{res}
			return
		}
		fr.bindReg(x, []string{t})
		return
	}
	if isBool(xt) {
		switch x.Op {
		case token.AND:
			fr.bindReg(x, []string{sAnd(a[0], b[0])})
			return
		case token.OR:
			fr.bindReg(x, []string{sOr(a[0], b[0])})
			return
		}
	}
	if isString(xt) {
		switch x.Op {
		case token.ADD:
			vc.declFun("strcat", []Sort{SInt, SInt}, SInt)
			vc.declFun("strlen", []Sort{SInt}, SInt)
			t := vc.bind(x.Name(), SInt, app("strcat", a[0], b[0]))
			vc.assert(sEq(app("strlen", t), app("+", app("strlen", a[0]), app("strlen", b[0]))))
			fr.regs[x] = []string{t}
			return
		}
	}
	c := fr.freshVal(x.Name(), x.Type())
	fr.regs[x] = c
}

func constBig(c *ssa.Const) *big.Int {
	n, _ := new(big.Int).SetString(c.Value.ExactString(), 10)
	if n == nil {
		return big.NewInt(0)
	}
	return n
}

func isPow2Minus1(c *ssa.Const) bool {
	n := constBig(c)
	if n.Sign() <= 0 {
		return false
	}
	m := new(big.Int).Add(n, big.NewInt(1))
	return new(big.Int).And(m, n).Sign() == 0
}

func (fr *Frame) execSlice(x *ssa.Slice, st *State, r string) {
	base := fr.val(x.X)
	var lo, hi, mx string
	if x.Low != nil {
		lo = fr.val(x.Low)[0]
	} else {
		lo = "0"
	}
	switch t := x.X.Type().Underlying().(type) {
	case *types.Slice:
		if x.High != nil {
			hi = fr.val(x.High)[0]
		} else {
			hi = base[2]
		}
		if x.Max != nil {
			mx = fr.val(x.Max)[0]
			fr.safetyObl("slice", r, sAnd(app("<=", "0", lo), app("<=", lo, hi), app("<=", hi, mx), app("<=", mx, base[3])), x.Pos(), "slice bounds out of range")
		} else {
			mx = base[3]
			fr.safetyObl("slice", r, sAnd(app("<=", "0", lo), app("<=", lo, hi), app("<=", hi, base[3])), x.Pos(), "slice bounds out of range")
		}
		w := fr.l().sizeOf(t.Elem())
		fr.bindReg(x, []string{base[0], sAdd(base[1], sMulC(lo, int64(w))), app("-", hi, lo), app("-", mx, lo)})
	case *types.Pointer: // *[N]T
		arr := t.Elem().Underlying().(*types.Array)
		n := sInt(arr.Len())
		if x.High != nil {
			hi = fr.val(x.High)[0]
		} else {
			hi = n
		}
		mx = n
		if x.Max != nil {
			mx = fr.val(x.Max)[0]
		}
		fr.safetyObl("nil", r, sNot(sEq(base[0], "0")), x.Pos(), "nil pointer dereference (slice of array)")
		fr.safetyObl("slice", r, sAnd(app("<=", "0", lo), app("<=", lo, hi), app("<=", hi, mx), app("<=", mx, n)), x.Pos(), "slice bounds out of range")
		w := fr.l().sizeOf(arr.Elem())
		// slice offsets are counted in slots: element i lives at slot off + i*w
		fr.bindReg(x, []string{base[0], sAdd(base[1], sMulC(lo, int64(w))), app("-", hi, lo), app("-", mx, lo)})
	default: // string
		fr.vc.declFun("strlen", []Sort{SInt}, SInt)
		fr.vc.declFun("substr", []Sort{SInt, SInt, SInt}, SInt)
		ln := app("strlen", base[0])
		if x.High != nil {
			hi = fr.val(x.High)[0]
		} else {
			hi = ln
		}
		fr.safetyObl("slice", r, sAnd(app("<=", "0", lo), app("<=", lo, hi), app("<=", hi, ln)), x.Pos(), "string slice bounds out of range")
		sub := fr.vc.bind(x.Name(), SInt, app("substr", base[0], lo, hi))
		fr.vc.assert(sImp(r, sEq(app("strlen", sub), app("-", hi, lo))))
		fr.regs[x] = []string{sub}
	}
}

func (fr *Frame) execConvert(x *ssa.Convert, st *State, r string) {
	from := x.X.Type()
	to := x.Type()
	v := fr.val(x.X)
	switch {
	case isInteger(from) && isInteger(to):
		flo, fhi, ok1 := intRange(from)
		tlo, thi, ok2 := intRange(to)
		if ok1 && ok2 && rangeWithin(flo, fhi, tlo, thi) {
			fr.regs[x] = v
			return
		}
		if c, ok := x.X.(*ssa.Const); ok && c.Value != nil {
			_ = c
		}
		fr.bindReg(x, []string{wrap(v[0], to)})
	case isString(from) && isSliceOfBytes(to):
		ref := fr.vc.allocRef(st, x.Name())
		fr.vc.declFun("strlen", []Sort{SInt}, SInt)
		ln := app("strlen", v[0])
		// contents unconstrained: fresh row
		row := fr.vc.freshRaw("strbytes", "(Array Int Int)")
		fr.vc.setRow(st, SInt, ref, row)
		fr.regs[x] = []string{ref, "0", ln, ln}
	default:
		c := fr.freshVal(x.Name(), to)
		fr.assumeTypeFacts(r, to, c, st)
		fr.regs[x] = c
	}
}

func isSliceOfBytes(t types.Type) bool {
	s, ok := t.Underlying().(*types.Slice)
	if !ok {
		return false
	}
	b, ok := s.Elem().Underlying().(*types.Basic)
	return ok && (b.Kind() == types.Uint8 || b.Kind() == types.Int32)
}

func rangeWithin(flo, fhi, tlo, thi string) bool {
	p := func(s string) *big.Int {
		s = strings.TrimSpace(s)
		neg := false
		if strings.HasPrefix(s, "(- ") {
			neg = true
			s = strings.TrimSuffix(strings.TrimPrefix(s, "(- "), ")")
		}
		n, _ := new(big.Int).SetString(s, 10)
		if neg {
			n.Neg(n)
		}
		return n
	}
	return p(flo).Cmp(p(tlo)) >= 0 && p(fhi).Cmp(p(thi)) <= 0
}

func (fr *Frame) execTypeAssert(x *ssa.TypeAssert, st *State, r string) {
	vc := fr.vc
	v := fr.val(x.X)
	at := x.AssertedType
	if isIfaceT(at) {
		// interface-to-interface: whether the dynamic type implements it is unknown
		vc.declFun("implements", []Sort{SInt, SInt}, SBool)
		ok := app("implements", v[0], sInt(int64(fr.eng.tagOf(at))))
		if x.CommaOk {
			okc := vc.bindBool(x.Name()+"_ok", sAnd(ok, sNot(sEq(v[0], "0"))))
			fr.regs[x] = []string{sIte(okc, v[0], "0"), sIte(okc, v[1], "0"), okc}
		} else {
			fr.safetyObl("typeassert", r, sAnd(ok, sNot(sEq(v[0], "0"))), x.Pos(), "interface conversion")
			fr.regs[x] = v
		}
		return
	}
	tag := sInt(int64(fr.eng.tagOf(at)))
	ok := sEq(v[0], tag)
	un := fr.eng.unbox(vc, at, v[1])
	if x.CommaOk {
		okc := vc.bindBool(x.Name()+"_ok", ok)
		z := fr.zeroVal(at)
		out := make([]string, 0, len(un)+1)
		for i := range un {
			out = append(out, sIte(okc, un[i], z[i]))
		}
		out = append(out, okc)
		fr.regs[x] = out
		// facts about the unboxed value
		fr.assumeTypeFacts(sAnd(r, okc), at, un, st)
	} else {
		fr.safetyObl("typeassert", r, ok, x.Pos(), "interface conversion (type assertion)")
		fr.regs[x] = un
		fr.assumeTypeFacts(r, at, un, st)
	}
}

// ---------------------------------------------------------------------------
// maps: Array key -> (present, value comps) per map type, keyed by a single component

func (fr *Frame) mapSorts(t types.Type) (ks Sort, vs []Sort, ok bool) {
	m, isMap := t.Underlying().(*types.Map)
	if !isMap {
		return
	}
	if !fr.l().flatOK(m.Key()) || !fr.l().flatOK(m.Elem()) {
		return
	}
	kl := fr.l().layout(m.Key())
	if len(kl) != 1 {
		return
	}
	return kl[0], fr.l().layout(m.Elem()), true
}

func mapMemName(ks Sort, vs Sort, i int) Sort {
	return Sort(fmt.Sprintf("Map_%s_%s_%d", ks, vs, i))
}

func (fr *Frame) mapInit(st *State, ref string, t types.Type) {}

func (fr *Frame) execLookup(x *ssa.Lookup, st *State, r string) {
	c := fr.freshVal(x.Name(), x.Type())
	fr.assumeTypeFacts(r, x.Type(), c, st)
	fr.regs[x] = c
	if _, ok := x.X.Type().Underlying().(*types.Map); ok {
		fr.vc.unmodelled["map lookup in "+fr.fn.String()+" (result unconstrained)"] = true
	} else {
		idx := fr.val(x.Index)[0]
		fr.vc.declFun("strlen", []Sort{SInt}, SInt)
		fr.safetyObl("index", r, sAnd(app("<=", "0", idx), app("<", idx, app("strlen", fr.val(x.X)[0]))), x.Pos(), "string index out of range")
	}
}

func (fr *Frame) execMapUpdate(x *ssa.MapUpdate, st *State, r string) {
	m := fr.val(x.Map)
	fr.safetyObl("nilmap", r, sNot(sEq(m[0], "0")), x.Pos(), "assignment to entry in nil map")
	fr.vc.unmodelled["map update in "+fr.fn.String()+" (map contents not modelled)"] = true
}

// hasInterior: could a reference to elements of type et point inside a value of struct type st?
func hasInterior(st *types.Struct, et types.Type, depth int) bool {
	if depth > 5 {
		return true
	}
	for i := 0; i < st.NumFields(); i++ {
		ft := st.Field(i).Type()
		if types.Identical(ft, et) {
			return true
		}
		switch u := ft.Underlying().(type) {
		case *types.Array:
			return true
		case *types.Struct:
			if hasInterior(u, et, depth+1) {
				return true
			}
		}
	}
	return false
}

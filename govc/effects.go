package main

// Frame / effect obligations discharged by provenance analysis over SSA (back end "frame").
// C11: deterministic effect (no map-iteration order, clock, randomness, scheduling or global mutable state
//      can influence the functions on the compile path);
// C10: solve/prove/verify write only memory they allocate or own (nothing reachable from the shared
//      compiled system, the keys or the caller's option values).

import (
	"fmt"
	"os"
	"regexp"

	"go/token"
	"go/types"
	"golang.org/x/tools/go/callgraph"
	"golang.org/x/tools/go/callgraph/cha"
	"sort"
	"strings"

	"golang.org/x/tools/go/ssa"
)

type EffectCfg struct {
	Mode         string              `json:"mode"`                    // "deterministic" | "frame"
	Roots        []string            `json:"roots,omitempty"`         // function names (ssa String()) the analysis starts from; empty = all functions of the packages
	Exclude      []string            `json:"exclude,omitempty"`       // function name substrings not followed / not analysed (with reason in Allowed)
	Allowed      map[string]string   `json:"allowed,omitempty"`       // site or global name -> reason (trusted, listed as assumption)
	SharedParams map[string][]string `json:"shared_params,omitempty"` // frame mode: function -> parameter names that are shared objects
}

type EffectObl struct {
	Name, Kind, Text, Pos, Detail string
	OK                            bool
	Assumes                       []string
}

func runEffects(eng *Engine, cfg *EffectCfg, prop string) []*EffectObl {
	switch cfg.Mode {
	case "deterministic":
		return runDeterminism(eng, cfg)
	case "frame":
		return runFrames(eng, cfg)
	}
	return nil
}

// allFunctions of the loaded (source) packages, including methods and closures
func (eng *Engine) allFunctions() []*ssa.Function {
	seen := map[*ssa.Function]bool{}
	var out []*ssa.Function
	var add func(f *ssa.Function)
	add = func(f *ssa.Function) {
		if f == nil || seen[f] || len(f.Blocks) == 0 {
			return
		}
		seen[f] = true
		out = append(out, f)
		for _, a := range f.AnonFuncs {
			add(a)
		}
	}
	for _, sp := range eng.spkgs {
		if sp == nil {
			continue
		}
		for _, m := range sp.Members {
			switch x := m.(type) {
			case *ssa.Function:
				add(x)
			case *ssa.Type:
				if named, ok := x.Type().(*types.Named); ok {
					for i := 0; i < named.NumMethods(); i++ {
						add(eng.prog.FuncValue(named.Method(i)))
					}
				}
			}
		}
	}
	sort.Slice(out, func(i, j int) bool { return out[i].String() < out[j].String() })
	return out
}

func (eng *Engine) relPos(p token.Pos) string {
	ps := eng.prog.Fset.Position(p)
	if !ps.IsValid() {
		return ""
	}
	return eng.sourceLine(ps)
}

func funcShort(f *ssa.Function) string { return shortName(normKey(f.String())) }

// ---------------------------------------------------------------------------
// C11: deterministic effect

var nondetCalls = map[string]string{
	"time.Now": "wall clock", "time.Since": "wall clock", "math/rand.": "pseudo-randomness", "crypto/rand.": "randomness",
	"os.Getenv": "environment", "os.Getpid": "process id", "runtime.NumGoroutine": "scheduler state", "runtime.NumCPU": "machine", "runtime.GOMAXPROCS": "machine",
}

func runDeterminism(eng *Engine, cfg *EffectCfg) []*EffectObl {
	var out []*EffectObl
	allowed := func(key string) (string, bool) {
		for k, why := range cfg.Allowed {
			if strings.Contains(key, k) {
				return why, true
			}
		}
		return "", false
	}
	excluded := func(name string) bool {
		for _, e := range cfg.Exclude {
			if strings.Contains(name, e) {
				return true
			}
		}
		return false
	}
	fns := eng.allFunctions()
	if len(cfg.Roots) > 0 {
		fns = eng.reachableFrom(cfg.Roots, cfg.Exclude)
	}
	for _, fn := range fns {
		name := funcShort(fn)
		if excluded(fn.String()) {
			continue
		}
		counters := map[string]int{}
		mk := func(kind, text, detail string, pos token.Pos, ok bool) {
			n := counters[kind]
			counters[kind] = n + 1
			o := &EffectObl{Name: fmt.Sprintf("%s#%s%d", name, kind, n), Kind: kind, Text: text, Pos: eng.relPos(pos), Detail: detail, OK: ok}
			if why, isAllowed := allowed(o.Name); isAllowed && !ok {
				o.OK = true
				o.Assumes = []string{"allowed effect " + o.Name + ": " + why}
			} else if why, isAllowed := allowed(detail); isAllowed && !ok && detail != "" {
				o.OK = true
				o.Assumes = []string{"allowed effect (" + detail + "): " + why}
			}
			out = append(out, o)
		}
		// the function-level obligation: present even when the body has no suspicious site
		sites := 0
		for _, b := range fn.Blocks {
			for _, in := range b.Instrs {
				switch x := in.(type) {
				case *ssa.Range:
					if _, isMap := x.X.Type().Underlying().(*types.Map); isMap {
						sites++
						ok, why := mapRangeOrderIndependent(fn, x)
						mk("maprange", "iteration over a map must not influence the result (order is randomised per run): "+eng.relPos(x.Pos()), why, x.Pos(), ok)
					}
				case *ssa.Select:
					if !x.Blocking || len(x.States) > 1 {
						sites++
						mk("select", "select over several channels is scheduling dependent: "+eng.relPos(x.Pos()), "", x.Pos(), false)
					}
				case *ssa.Go:
					sites++
					mk("go", "goroutine started on the compile path: "+eng.relPos(x.Pos()), "", x.Pos(), false)
				case *ssa.Store:
					if g := globalRoot(x.Addr); g != nil && fn.Name() != "init" && !strings.HasPrefix(fn.Name(), "init#") && !isOnceInitialiser(fn) {
						sites++
						mk("globalwrite", "write to package-level variable "+g.String()+" (state shared between compilations): "+eng.relPos(x.Pos()), g.String(), x.Pos(), false)
					}
				case *ssa.MapUpdate:
					if g := globalRoot(x.Map); g != nil && fn.Name() != "init" && !strings.HasPrefix(fn.Name(), "init#") {
						sites++
						mk("globalwrite", "update of package-level map "+g.String()+": "+eng.relPos(x.Pos()), g.String(), x.Pos(), false)
					}
				case ssa.CallInstruction:
					c := x.Common()
					callee := ""
					if f := c.StaticCallee(); f != nil {
						callee = f.String()
						if f.Pkg != nil {
							callee = f.Pkg.Pkg.Path() + "." + f.Name()
						} else if f.Object() != nil && f.Object().Pkg() != nil {
							callee = f.Object().Pkg().Path() + "." + f.Name()
						}
					}
					for pat, what := range nondetCalls {
						if callee != "" && (callee == pat || (strings.HasSuffix(pat, ".") && strings.HasPrefix(callee, pat))) {
							sites++
							mk("nondet-call", "call of "+callee+" ("+what+"): "+eng.relPos(in.Pos()), callee, in.Pos(), false)
						}
					}
					// mutation of an object owned by a package-level variable through a call: the receiver of a
					// (non read-only) method, or the destination of append/copy
					if fn.Name() != "init" && !strings.HasPrefix(fn.Name(), "init#") {
						var recv ssa.Value
						if c.IsInvoke() {
							recv = c.Value
						} else if f := c.StaticCallee(); f != nil && f.Signature.Recv() != nil && len(c.Args) > 0 {
							recv = c.Args[0]
						} else if b, ok := c.Value.(*ssa.Builtin); ok && (b.Name() == "append" || b.Name() == "copy") && len(c.Args) > 0 {
							recv = c.Args[0]
						}
						if recv != nil {
							if g := globalRoot(recv); g != nil && isRefLike(recv.Type()) && !callIsReadOnly(eng, c) && !isOnceDo(c) {
								sites++
								mk("globalwrite", "object owned by package-level variable "+g.String()+" is the receiver/destination of a possibly mutating call ("+calleeName(c)+"): "+eng.relPos(in.Pos()), g.String(), in.Pos(), false)
							}
						}
					}
				}
			}
		}
		if sites == 0 {
			out = append(out, &EffectObl{Name: name + "#deterministic", Kind: "deterministic", OK: true,
				Text: "no map iteration, select, goroutine, clock/randomness call or write to package-level state in the body"})
		}
	}
	return out
}

func calleeName(c *ssa.CallCommon) string {
	if c.IsInvoke() {
		return c.Method.FullName()
	}
	if f := c.StaticCallee(); f != nil {
		return f.String()
	}
	return "dynamic call"
}

func isRefLike(t types.Type) bool {
	switch types.Unalias(t).Underlying().(type) {
	case *types.Pointer, *types.Slice, *types.Map, *types.Interface, *types.Chan:
		return true
	}
	return false
}

// globalRoot: the package-level variable a value is (transitively) loaded from / points into
func globalRoot(v ssa.Value) *ssa.Global {
	for i := 0; i < 12; i++ {
		switch x := v.(type) {
		case *ssa.Global:
			return x
		case *ssa.FieldAddr:
			v = x.X
		case *ssa.IndexAddr:
			v = x.X
		case *ssa.Slice:
			v = x.X
		case *ssa.UnOp:
			if x.Op != token.MUL {
				return nil
			}
			v = x.X
		case *ssa.ChangeType:
			v = x.X
		case *ssa.ChangeInterface:
			v = x.X
		case *ssa.MakeInterface:
			v = x.X
		case *ssa.Field:
			v = x.X
		default:
			return nil
		}
	}
	return nil
}

// callIsReadOnly: callee known not to modify its reference arguments
func callIsReadOnly(eng *Engine, c *ssa.CallCommon) bool {
	if b, ok := c.Value.(*ssa.Builtin); ok {
		switch b.Name() {
		case "len", "cap", "print", "println", "min", "max":
			return true
		}
		return false
	}
	name := calleeName(c)
	if con := eng.cs.lookup(name); con != nil && (con.Pure || (con.HasAssigns && len(con.Assigns) == 0)) {
		return true
	}
	if f := c.StaticCallee(); f != nil {
		p := calleePkgPath(f)
		if isEffectFree(p) {
			return true
		}
		// big.Int / field element readers
		switch f.Name() {
		case "Cmp", "Sign", "BitLen", "IsUint64", "Uint64", "Int64", "String", "Text", "Bytes", "Equal", "IsZero", "IsOne", "Bit", "Marshal", "Len", "Error", "Type", "Kind", "Name":
			return true
		}
	}
	if c.IsInvoke() {
		switch c.Method.Name() {
		case "String", "Error", "Len", "Size", "BlockSize":
			return true
		}
	}
	return false
}

// mapRangeOrderIndependent: a syntactic sufficient condition. The loop body may only
//   - update / delete entries of maps, keyed by the iteration key or not,
//   - store into cells indexed by the iteration key,
//   - compute pure values, compare, and `continue`;
//
// any append, call with side effects, early exit (return/break carrying a value that depends on
// the iteration) or store to a fixed location makes the result depend on the order.
func mapRangeOrderIndependent(fn *ssa.Function, r *ssa.Range) (bool, string) {
	// locate the loop: the block containing the Next instruction of this range is the header
	var header *ssa.BasicBlock
	for _, ref := range *r.Referrers() {
		if n, ok := ref.(*ssa.Next); ok {
			header = n.Block()
		}
	}
	if header == nil {
		return false, "loop not found"
	}
	body := map[*ssa.BasicBlock]bool{header: true}
	var stack []*ssa.BasicBlock
	for _, p := range header.Preds {
		if header.Dominates(p) && !body[p] {
			body[p] = true
			stack = append(stack, p)
		}
	}
	for len(stack) > 0 {
		b := stack[len(stack)-1]
		stack = stack[:len(stack)-1]
		for _, p := range b.Preds {
			if !body[p] {
				body[p] = true
				stack = append(stack, p)
			}
		}
	}
	for b := range body {
		for _, s := range b.Succs {
			if !body[s] && b != header {
				return false, "early exit from the loop (the first key found decides)"
			}
		}
		for _, in := range b.Instrs {
			switch x := in.(type) {
			case *ssa.Store:
				root := x.Addr
				for {
					if ia, ok := root.(*ssa.IndexAddr); ok {
						root = ia.X
						continue
					}
					if fa, ok := root.(*ssa.FieldAddr); ok {
						root = fa.X
						continue
					}
					break
				}
				if a, isAlloc := root.(*ssa.Alloc); !isAlloc || !body[a.Block()] && a.Comment != "varargs" {
					return false, "store to a location that outlives the iteration"
				}
			case *ssa.Send, *ssa.Go, *ssa.Defer, *ssa.Panic:
				return false, "channel/goroutine/defer/panic inside the loop"
			case *ssa.Return:
				return false, "return inside the loop"
			case ssa.CallInstruction:
				c := x.Common()
				if bi, ok := c.Value.(*ssa.Builtin); ok {
					switch bi.Name() {
					case "len", "cap", "delete", "min", "max":
						continue
					}
					if bi.Name() == "append" && appendThenSorted(x, header, body) {
						continue
					}
					return false, "builtin " + bi.Name() + " inside the loop (appending makes the order observable)"
				}
				if f := c.StaticCallee(); f != nil && isEffectFree(calleePkgPath(f)) {
					continue
				}
				return false, "call of " + calleeName(c) + " inside the loop"
			case *ssa.Phi:
				// a loop-carried value (accumulator) must be combined commutatively (+, *, |, &, ^, max, min)
				if x.Block() == header {
					for k, p := range header.Preds {
						if !body[p] {
							continue
						}
						if isSortedAccumulator(x, header, body) {
							continue
						}
						if !commutativeUpdate(x, x.Edges[k], 0) {
							return false, "loop-carried value " + x.Comment + " is not a commutative accumulation (its final value depends on the iteration order)"
						}
					}
				}
			}
		}
	}
	return true, "body only updates maps / numeric accumulators"
}

// ---------------------------------------------------------------------------
// C10: frames (see frames.go)

func commutativeUpdate(phi *ssa.Phi, v ssa.Value, depth int) bool {
	if v == ssa.Value(phi) {
		return true
	}
	if depth > 4 {
		return false
	}
	switch x := v.(type) {
	case *ssa.BinOp:
		switch x.Op {
		case token.ADD, token.MUL, token.OR, token.AND, token.XOR:
			return (x.X == ssa.Value(phi) && !dependsOn(x.Y, phi, 0)) || (x.Y == ssa.Value(phi) && !dependsOn(x.X, phi, 0))
		}
	case *ssa.Call:
		if b, ok := x.Common().Value.(*ssa.Builtin); ok && (b.Name() == "max" || b.Name() == "min") {
			n := 0
			for _, a := range x.Common().Args {
				if a == ssa.Value(phi) {
					n++
				} else if dependsOn(a, phi, 0) {
					return false
				}
			}
			return n == 1
		}
	case *ssa.Phi:
		// join of conditional updates inside the body
		for _, e := range x.Edges {
			if !commutativeUpdate(phi, e, depth+1) {
				return false
			}
		}
		return true
	}
	return false
}

func dependsOn(v ssa.Value, phi *ssa.Phi, depth int) bool {
	if v == ssa.Value(phi) {
		return true
	}
	if depth > 6 {
		return true
	}
	if in, ok := v.(ssa.Instruction); ok {
		for _, op := range in.Operands(nil) {
			if *op != nil && dependsOn(*op, phi, depth+1) {
				return true
			}
		}
	}
	return false
}

// reachableFrom: functions with bodies reachable in the CHA call graph from the root patterns
// (regular expressions on ssa function names), not following excluded functions.
func (eng *Engine) reachableFrom(roots, exclude []string) []*ssa.Function {
	cg := cha.CallGraph(eng.prog)
	var res []*regexp.Regexp
	for _, r := range roots {
		res = append(res, regexp.MustCompile(r))
	}
	isExcluded := func(name string) bool {
		for _, e := range exclude {
			if strings.Contains(name, e) {
				return true
			}
		}
		return false
	}
	seen := map[*ssa.Function]bool{}
	var work []*ssa.Function
	for _, f := range eng.allFunctions() {
		n := f.String()
		for _, re := range res {
			if re.MatchString(n) && !isExcluded(n) {
				if !seen[f] {
					seen[f] = true
					work = append(work, f)
				}
			}
		}
	}
	// methods by name, for interface calls (class-hierarchy approximation over the loaded packages)
	byName := map[string][]*ssa.Function{}
	for _, f := range eng.allFunctions() {
		if f.Signature.Recv() != nil {
			byName[f.Name()] = append(byName[f.Name()], f)
		}
	}
	for len(work) > 0 {
		f := work[len(work)-1]
		work = work[:len(work)-1]
		visit := func(g *ssa.Function) {
			if g != nil && g.Origin() != nil && g.Origin() != g {
				g = g.Origin() // instantiation of a generic function: its body is the generic one
			}
			if g == nil || seen[g] || isExcluded(g.String()) {
				return
			}
			seen[g] = true
			work = append(work, g)
		}
		if node := cg.Nodes[f]; node != nil {
			for _, e := range node.Out {
				visit(e.Callee.Func)
			}
		}
		for _, b := range f.Blocks {
			for _, in := range b.Instrs {
				switch x := in.(type) {
				case ssa.CallInstruction:
					c := x.Common()
					if c.IsInvoke() {
						for _, m := range byName[c.Method.Name()] {
							visit(m)
						}
					} else if g := c.StaticCallee(); g != nil {
						visit(g)
					}
				case *ssa.MakeClosure:
					if g, ok := x.Fn.(*ssa.Function); ok {
						visit(g)
					}
				}
			}
		}
		for _, a := range f.AnonFuncs {
			visit(a)
		}
	}
	_ = callgraph.CalleesOf
	var out []*ssa.Function
	for f := range seen {
		if os.Getenv("GOVC_DEBUG") != "" {
			fmt.Fprintln(os.Stderr, "reachable:", f.String(), len(f.Blocks))
		}
		if len(f.Blocks) > 0 {
			out = append(out, f)
		}
	}
	sort.Slice(out, func(i, j int) bool { return out[i].String() < out[j].String() })
	return out
}

func isOnceDo(c *ssa.CallCommon) bool {
	if f := c.StaticCallee(); f != nil {
		return f.String() == "(*sync.Once).Do"
	}
	return false
}

// isOnceInitialiser: fn is a closure passed to (*sync.Once).Do by its parent: one-time initialisation of
// package-level constants (deterministic as long as the initialiser itself is; it is analysed too)
func isOnceInitialiser(fn *ssa.Function) bool {
	p := fn.Parent()
	if p == nil {
		return false
	}
	for _, b := range p.Blocks {
		for _, in := range b.Instrs {
			if ci, ok := in.(ssa.CallInstruction); ok && isOnceDo(ci.Common()) {
				for _, a := range ci.Common().Args {
					if mc, ok := a.(*ssa.MakeClosure); ok && mc.Fn == ssa.Value(fn) {
						return true
					}
					if a == ssa.Value(fn) {
						return true
					}
				}
			}
		}
	}
	return false
}

var sortFuncs = map[string]bool{"sort.Ints": true, "sort.Strings": true, "sort.Slice": true, "sort.SliceStable": true, "sort.Sort": true, "sort.Stable": true,
	"slices.Sort": true, "slices.SortFunc": true, "slices.SortStableFunc": true}

// isSortedAccumulator: the loop-carried slice phi is only appended to inside the loop and the first thing
// done with it after the loop is sorting it (the "collect the keys, then sort" idiom)
func isSortedAccumulator(phi *ssa.Phi, header *ssa.BasicBlock, body map[*ssa.BasicBlock]bool) bool {
	if _, ok := phi.Type().Underlying().(*types.Slice); !ok {
		return false
	}
	type use struct {
		b, i int
		in   ssa.Instruction
	}
	var outside []use
	for _, ref := range *phi.Referrers() {
		if body[ref.Block()] {
			// inside: only `append(phi, ...)` feeding back into the phi
			call, ok := ref.(*ssa.Call)
			if ok {
				if bi, ok := call.Common().Value.(*ssa.Builtin); ok && bi.Name() == "append" && call.Common().Args[0] == ssa.Value(phi) {
					continue
				}
			}
			if _, ok := ref.(*ssa.DebugRef); ok {
				continue
			}
			if p2, ok := ref.(*ssa.Phi); ok && p2 == phi {
				continue
			}
			return false
		}
		idx := 0
		for k, in := range ref.Block().Instrs {
			if in == ref {
				idx = k
			}
		}
		outside = append(outside, use{ref.Block().Index, idx, ref})
	}
	if len(outside) == 0 {
		return false
	}
	sort.Slice(outside, func(i, j int) bool {
		if outside[i].b != outside[j].b {
			return outside[i].b < outside[j].b
		}
		return outside[i].i < outside[j].i
	})
	for _, u := range outside {
		if _, ok := u.in.(*ssa.DebugRef); ok {
			continue
		}
		ci, ok := u.in.(ssa.CallInstruction)
		if !ok {
			// a conversion to a sortable named type etc.: follow one step
			if mi, ok := u.in.(*ssa.ChangeType); ok {
				for _, r2 := range *mi.Referrers() {
					if c2, ok := r2.(ssa.CallInstruction); ok && c2.Common().StaticCallee() != nil && sortFuncs[c2.Common().StaticCallee().String()] {
						return true
					}
				}
			}
			return false
		}
		f := ci.Common().StaticCallee()
		return f != nil && sortFuncs[f.String()]
	}
	return false
}

func appendThenSorted(call ssa.Instruction, header *ssa.BasicBlock, body map[*ssa.BasicBlock]bool) bool {
	c := call.(ssa.CallInstruction).Common()
	phi, ok := c.Args[0].(*ssa.Phi)
	if !ok || phi.Block() != header {
		return false
	}
	return isSortedAccumulator(phi, header, body)
}

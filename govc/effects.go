package main

// Frame / effect obligations discharged by provenance analysis over SSA (see effects_impl.go).

type EffectCfg struct {
	Deterministic []string `json:"deterministic,omitempty"` // package patterns whose functions must be deterministic (C11)
	Roots         []string `json:"roots,omitempty"`
	Frames        []string `json:"frames,omitempty"`
}

type EffectObl struct {
	Name, Kind, Text, Pos, Detail string
	OK                            bool
	Assumes                       []string
}

func runEffects(eng *Engine, cfg *EffectCfg, prop string) []*EffectObl { return nil }

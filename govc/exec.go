package main

import (
	"os"
	"fmt"
	"go/constant"
	"go/token"
	"go/types"
	"sort"
	"strings"

	"golang.org/x/tools/go/ssa"
)

type closureInfo struct {
	fn       *ssa.Function
	bindings [][]string
	id       string
}

type retInfo struct {
	reach string
	vals  []string
	st    State
	pos   token.Pos
	blk   *ssa.BasicBlock // the block at whose end the function returns on this path
}

type loopInfo struct {
	header  *ssa.BasicBlock
	body    map[*ssa.BasicBlock]bool
	latches []*ssa.BasicBlock
	ordinal int
	phiHavoc map[*ssa.Phi][]string
	invs    []invItem
}

type invItem struct {
	lemma bool
	text  string
	label string
	props []string
	eval  func(fr *Frame, st *State, phi map[ssa.Value][]string) (string, error)
}

type deferredPre struct {
	goal, reach, text, name string
	pos                     token.Position
	props                   []string
}

// Frame is the symbolic execution of one function body (top level or inlined).
type Frame struct {
	appendPre *State // state before the append being executed (operands of the sequence fact)
	deferredPre []deferredPre
	vc      *VC
	eng     *Engine
	fn      *ssa.Function
	con     *Contract
	top     bool
	depth   int
	suffix  string
	regs    map[ssa.Value][]string
	clos    map[ssa.Value]*closureInfo
	entry   State
	params  [][]string
	free    [][]string
	reach   map[*ssa.BasicBlock]string
	exit    map[*ssa.BasicBlock]*State
	rets    []retInfo
	loops   map[*ssa.BasicBlock]*loopInfo
	backEdge map[[2]int]bool
	safety  bool
	safetyProps []string
	protected []string // refs of non-escaping local allocations
	nonEsc  map[ssa.Value]bool
	defers  []*ssa.Defer
	order   []*ssa.BasicBlock
	unsupported string
	mode    string
	selfClos *closureInfo
	parent  *Frame
	panicReach []string
	splitReturn map[*ssa.BasicBlock]bool
	ptrs    []knownPtr
}

type knownPtr struct {
	c []string
	t types.Type // pointee type
}

// typeContains: an object of type a may contain an object of type b (as a field or element, transitively)
func typeContains(a, b types.Type, depth int) bool {
	if types.Identical(a, b) {
		return true
	}
	if depth > 6 {
		return true
	}
	switch t := types.Unalias(a).Underlying().(type) {
	case *types.Struct:
		for i := 0; i < t.NumFields(); i++ {
			if typeContains(t.Field(i).Type(), b, depth+1) {
				return true
			}
		}
	case *types.Array:
		return typeContains(t.Elem(), b, depth+1)
	}
	return false
}

// notePointer: Go objects of types that cannot contain one another never overlap; two objects of the same
// type are identical or disjoint. Recorded as facts between the pointers a function gets hold of.
func (fr *Frame) notePointer(reach string, c []string, ptrT types.Type) {
	pt, ok := types.Unalias(ptrT).Underlying().(*types.Pointer)
	if !ok || len(c) != 2 {
		return
	}
	et := pt.Elem()
	if _, isStruct := et.Underlying().(*types.Struct); !isStruct {
		return
	}
	if _, isTP := types.Unalias(et).(*types.TypeParam); isTP {
		return
	}
	sz := fr.l().sizeOf(et)
	if sz == 0 {
		return
	}
	n := 0
	for i := len(fr.ptrs) - 1; i >= 0 && n < 16; i-- {
		q := fr.ptrs[i]
		if q.c[0] == c[0] && q.c[1] == c[1] {
			continue
		}
		n++
		qs := fr.l().sizeOf(q.t)
		disjoint := sOr(sNot(sEq(c[0], q.c[0])), app("<=", app("+", c[1], sInt(int64(sz))), q.c[1]), app("<=", app("+", q.c[1], sInt(int64(qs))), c[1]))
		switch {
		case types.Identical(et, q.t):
			fr.vc.assert(sImp(reach, sOr(sAnd(sEq(c[0], q.c[0]), sEq(c[1], q.c[1])), disjoint)))
		case !typeContains(et, q.t, 0) && !typeContains(q.t, et, 0):
			fr.vc.assert(sImp(reach, sOr(sEq(c[0], "0"), sEq(q.c[0], "0"), disjoint)))
		}
	}
	fr.ptrs = append(fr.ptrs, knownPtr{c: c, t: et})
}

func (fr *Frame) l() *Layouter { return fr.eng.lay }

func (fr *Frame) pos(p token.Pos) token.Position {
	return fr.eng.prog.Fset.Position(p)
}

func (fr *Frame) srcLine(p token.Pos) string {
	ps := fr.pos(p)
	return fr.eng.sourceLine(ps)
}

// ---------------------------------------------------------------------------

func (fr *Frame) val(v ssa.Value) []string {
	if c, ok := fr.regs[v]; ok {
		return c
	}
	switch x := v.(type) {
	case *ssa.Const:
		return fr.constVal(x)
	case *ssa.Global:
		return []string{fr.eng.globalRef(fr.vc, x), "0"}
	case *ssa.Function:
		return []string{fr.eng.funcID(fr.vc, x)}
	case *ssa.Builtin:
		return []string{"0"}
	case *ssa.FreeVar:
		for i, fv := range fr.fn.FreeVars {
			if fv == x && i < len(fr.free) {
				return fr.free[i]
			}
		}
	}
	// unknown value (should not happen): fresh
	c := fr.freshVal("undef", v.Type())
	fr.regs[v] = c
	fr.vc.unmodelled["undefined SSA value "+v.Name()+" in "+fr.fn.String()] = true
	return c
}

func (fr *Frame) freshVal(prefix string, t types.Type) []string {
	if !fr.l().flatOK(t) {
		return []string{fr.vc.fresh(prefix, "BigArr")}
	}
	lay := fr.l().layout(t)
	c := make([]string, len(lay))
	for i, s := range lay {
		c[i] = fr.vc.fresh(prefix, s)
	}
	return c
}

func (fr *Frame) zeroVal(t types.Type) []string {
	if !fr.l().flatOK(t) {
		return []string{"zero_BigArr"}
	}
	lay := fr.l().layout(t)
	c := make([]string, len(lay))
	for i, s := range lay {
		fr.vc.useSort(s)
		c[i] = zeroOf(s)
	}
	return c
}

func (fr *Frame) constVal(c *ssa.Const) []string {
	t := c.Type()
	if c.Value == nil {
		return fr.zeroVal(t)
	}
	switch c.Value.Kind() {
	case constant.Bool:
		if constant.BoolVal(c.Value) {
			return []string{"true"}
		}
		return []string{"false"}
	case constant.Int:
		s := c.Value.ExactString()
		if strings.HasPrefix(s, "-") {
			s = "(- " + s[1:] + ")"
		}
		if lay := fr.l().layout(t); len(lay) == 1 && lay[0] != SInt {
			// integer constant of float type etc.
			return []string{fr.vc.fresh("constf", lay[0])}
		}
		return []string{s}
	case constant.String:
		return []string{fr.eng.strID(fr.vc, constant.StringVal(c.Value))}
	}
	return fr.freshVal("const", t)
}

func (fr *Frame) setReg(v ssa.Value, c []string) { fr.regs[v] = c }

// bindReg gives every component a short name
func (fr *Frame) bindReg(v ssa.Value, c []string) {
	if !fr.l().flatOK(v.Type()) {
		fr.regs[v] = c
		return
	}
	lay := fr.l().layout(v.Type())
	out := make([]string, len(c))
	for i := range c {
		if i < len(lay) {
			out[i] = fr.vc.bind(v.Name(), lay[i], c[i])
		} else {
			out[i] = c[i]
		}
	}
	fr.regs[v] = out
	switch types.Unalias(v.Type()).Underlying().(type) {
	case *types.Pointer, *types.Slice, *types.Map, *types.Chan:
		if len(out) > 0 {
			fr.vc.noteBirth(out[0])
		}
	}
}

// ---------------------------------------------------------------------------
// memory access of typed values

func (fr *Frame) load(st *State, ptr []string, t types.Type) []string {
	if !fr.l().flatOK(t) {
		return []string{fr.vc.fresh("bigload", "BigArr")}
	}
	lay := fr.l().layout(t)
	out := make([]string, len(lay))
	for i, s := range lay {
		out[i] = fr.vc.loadComp(st, s, ptr[0], fr.vc.addSlot(ptr[1], i))
	}
	return out
}

func (fr *Frame) store(st *State, ptr []string, t types.Type, v []string) {
	if !fr.l().flatOK(t) {
		// large array value: contents not tracked; the whole target row becomes unknown (over-approximation)
		fr.vc.unmodelled["contents of large array values are not tracked ("+fr.fn.String()+")"] = true
		ss := fr.bigElemSorts(t)
		if ss == nil {
			fr.vc.havocAll(st, nil)
			return
		}
		for _, s := range ss {
			row := fr.vc.freshRaw("row_"+string(s), "(Array Int "+string(s)+")")
			fr.vc.setRow(st, s, ptr[0], row)
		}
		return
	}
	lay := fr.l().layout(t)
	for i, s := range lay {
		if i < len(v) {
			fr.vc.storeComp(st, s, ptr[0], fr.vc.addSlot(ptr[1], i), v[i])
		}
	}
}

func (fr *Frame) assumeTypeFacts(reach string, t types.Type, c []string, st *State) {
	if !fr.l().flatOK(t) {
		return
	}
	facts := fr.vc.typeFacts(fr.l(), t, c, st.brk)
	if len(facts) > 0 {
		fr.vc.assert(sImp(reach, sAnd(facts...)))
	}
}

func (fr *Frame) safetyObl(kind, reach, goal string, p token.Pos, what string) {
	if goal == "true" {
		return
	}
	if kind == "nil" && strings.HasPrefix(goal, "(not (= ") {
		// allocation references are never nil; a reference already checked under the same reach
		// condition needs no second obligation
		ref := strings.TrimSuffix(strings.TrimPrefix(goal, "(not (= "), " 0))")
		if fr.vc.isAlloc[ref] {
			return
		}
		key := ref + "|" + reach
		if fr.vc.nilChecked[key] {
			return
		}
		fr.vc.nilChecked[key] = true
	}
	if !fr.safety {
		// not under a nopanic contract: a panic is an allowed outcome; continue under the goal
		fr.vc.assert(sImp(reach, goal))
		return
	}
	txt := what
	if p.IsValid() {
		txt = what + ": " + fr.srcLine(p)
	}
	if fr.top && fr.con != nil && fr.con.PanicsOnly != nil {
		// panics-only-if C also covers the implicit panics (index, nil, conversion): the operation may fail
		// when C held on entry; execution continues only if it did not fail
		env := fr.newEnv(&fr.entry)
		if c, err := env.evalBool(fr.con.PanicsOnly.E); err == nil {
			fr.vc.oblig(kind+fr.suffix, "", reach, sOr(goal, c), fr.pos(p), fr.safetyProps, txt)
			fr.vc.assert(sImp(reach, goal))
			return
		}
	}
	fr.vc.oblig(kind+fr.suffix, "", reach, goal, fr.pos(p), fr.safetyProps, txt)
}

// ---------------------------------------------------------------------------
// CFG preparation

func (fr *Frame) prepareCFG() {
	fn := fr.fn
	fr.backEdge = map[[2]int]bool{}
	fr.loops = map[*ssa.BasicBlock]*loopInfo{}
	for _, b := range fn.Blocks {
		for _, s := range b.Succs {
			if s.Dominates(b) {
				fr.backEdge[[2]int{b.Index, s.Index}] = true
				li := fr.loops[s]
				if li == nil {
					li = &loopInfo{header: s, body: map[*ssa.BasicBlock]bool{s: true}, phiHavoc: map[*ssa.Phi][]string{}}
					fr.loops[s] = li
				}
				li.latches = append(li.latches, b)
			}
		}
	}
	// natural loop bodies
	for _, li := range fr.loops {
		var stack []*ssa.BasicBlock
		for _, l := range li.latches {
			if !li.body[l] {
				li.body[l] = true
				stack = append(stack, l)
			}
		}
		for len(stack) > 0 {
			b := stack[len(stack)-1]
			stack = stack[:len(stack)-1]
			for _, p := range b.Preds {
				if !li.body[p] {
					li.body[p] = true
					stack = append(stack, p)
				}
			}
		}
	}
	var hs []*ssa.BasicBlock
	for h := range fr.loops {
		hs = append(hs, h)
	}
	sort.Slice(hs, func(i, j int) bool { return hs[i].Index < hs[j].Index })
	for i, h := range hs {
		fr.loops[h].ordinal = i + 1
	}
	// topological order on forward edges
	seen := map[*ssa.BasicBlock]bool{}
	var post []*ssa.BasicBlock
	var dfs func(b *ssa.BasicBlock)
	dfs = func(b *ssa.BasicBlock) {
		seen[b] = true
		// successors that leave a loop b belongs to are visited first, so that in the reversed postorder a loop's
		// body directly follows its header (the step obligations then carry no code from behind the loop)
		succs := append([]*ssa.BasicBlock(nil), b.Succs...)
		if os.Getenv("GOVC_OLD_ORDER") == "" {
			depth := func(x *ssa.BasicBlock) int {
				n := 0
				for _, li := range fr.loops {
					if li.body[x] {
						n++
					}
				}
				return n
			}
			sort.SliceStable(succs, func(i, j int) bool { return depth(succs[i]) < depth(succs[j]) })
		}
		for _, s := range succs {
			if fr.backEdge[[2]int{b.Index, s.Index}] || seen[s] {
				continue
			}
			dfs(s)
		}
		post = append(post, b)
	}
	if len(fn.Blocks) > 0 {
		dfs(fn.Blocks[0])
	}
	for i := len(post) - 1; i >= 0; i-- {
		fr.order = append(fr.order, post[i])
	}
	if fn.Recover != nil && defersMayRecover(fn) {
		fr.unsupported = "function uses recover"
	}
}

// defersMayRecover: go/ssa gives every function with a defer statement a Recover block; control only reaches it
// when a deferred function calls recover(). When every deferred callee is statically known and none of them
// contains a call of the builtin, a panic propagates as in a function without defer and the block is dead.
func defersMayRecover(fn *ssa.Function) bool {
	for _, b := range fn.Blocks {
		for _, in := range b.Instrs {
			d, ok := in.(*ssa.Defer)
			if !ok {
				continue
			}
			var callee *ssa.Function
			switch v := d.Call.Value.(type) {
			case *ssa.Function:
				callee = v
			case *ssa.MakeClosure:
				callee, _ = v.Fn.(*ssa.Function)
			}
			if callee == nil || d.Call.IsInvoke() || len(callee.Blocks) == 0 {
				return true
			}
			for _, cb := range callee.Blocks {
				for _, ci := range cb.Instrs {
					if c, ok := ci.(ssa.CallInstruction); ok {
						if bi, ok := c.Common().Value.(*ssa.Builtin); ok && bi.Name() == "recover" {
							return true
						}
						if _, isBuiltin := c.Common().Value.(*ssa.Builtin); !isBuiltin {
							return true // a deferred function that calls on: recover could hide there
						}
					}
				}
			}
		}
	}
	return false
}

// computeNonEscaping finds local allocations whose address is only used for
// loads, stores (as the address), field/index addressing, and read-only
// closure captures.
func (fr *Frame) computeNonEscaping() {
	fr.nonEsc = map[ssa.Value]bool{}
	var okUse func(v ssa.Value, depth int) bool
	okUse = func(v ssa.Value, depth int) bool {
		if depth > 6 {
			return false
		}
		refs := v.Referrers()
		if refs == nil {
			return false
		}
		for _, u := range *refs {
			switch x := u.(type) {
			case *ssa.UnOp:
				if x.Op != token.MUL {
					return false
				}
			case *ssa.Store:
				if x.Val == v {
					return false
				}
			case *ssa.FieldAddr:
				if !okUse(x, depth+1) {
					return false
				}
			case *ssa.IndexAddr:
				if x.X != v || !okUse(x, depth+1) {
					return false
				}
			case *ssa.DebugRef:
			case *ssa.MakeClosure:
				// read-only capture?
				cf := x.Fn.(*ssa.Function)
				for i, b := range x.Bindings {
					if b == v {
						if !freeVarReadOnly(cf, cf.FreeVars[i], 0) {
							return false
						}
					}
				}
			default:
				return false
			}
		}
		return true
	}
	for _, b := range fr.fn.Blocks {
		for _, in := range b.Instrs {
			if a, ok := in.(*ssa.Alloc); ok {
				if okUse(a, 0) {
					fr.nonEsc[a] = true
				}
			}
		}
	}
}

func freeVarReadOnly(fn *ssa.Function, fv *ssa.FreeVar, depth int) bool {
	refs := fv.Referrers()
	if refs == nil {
		return true
	}
	for _, u := range *refs {
		switch x := u.(type) {
		case *ssa.UnOp:
			if x.Op != token.MUL {
				return false
			}
		case *ssa.DebugRef:
		case *ssa.MakeClosure:
			if depth > 2 {
				return false
			}
			cf := x.Fn.(*ssa.Function)
			for i, b := range x.Bindings {
				if b == ssa.Value(fv) && !freeVarReadOnly(cf, cf.FreeVars[i], depth+1) {
					return false
				}
			}
		default:
			return false
		}
	}
	return true
}

func pureReturnBlock(b *ssa.BasicBlock) bool {
	if len(b.Instrs) == 0 {
		return false
	}
	if _, ok := b.Instrs[len(b.Instrs)-1].(*ssa.Return); !ok {
		return false
	}
	for _, in := range b.Instrs[:len(b.Instrs)-1] {
		switch in.(type) {
		case *ssa.Phi, *ssa.DebugRef:
		default:
			return false
		}
	}
	return true
}

// ---------------------------------------------------------------------------

func (fr *Frame) edgeCond(from, to *ssa.BasicBlock) string {
	last := from.Instrs[len(from.Instrs)-1]
	if iff, ok := last.(*ssa.If); ok {
		c := fr.val(iff.Cond)[0]
		if from.Succs[0] == to && from.Succs[1] == to {
			return "true"
		}
		if from.Succs[0] == to {
			return c
		}
		return sNot(c)
	}
	return "true"
}

func (fr *Frame) mergeStates(edges []string, sts []*State, tag string) State {
	if len(sts) == 1 {
		return sts[0].clone()
	}
	out := State{mem: map[Sort]string{}}
	// brk
	same := true
	for _, s := range sts[1:] {
		if s.brk != sts[0].brk {
			same = false
		}
	}
	if same {
		out.brk = sts[0].brk
	} else {
		out.brk = fr.vc.fresh("brk_"+tag, SInt)
		for i, s := range sts {
			fr.vc.assert(sImp(edges[i], sEq(out.brk, s.brk)))
		}
	}
	// base
	sameBase := true
	for _, s := range sts[1:] {
		if s.base != sts[0].base {
			sameBase = false
		}
	}
	keys := map[Sort]bool{}
	for _, s := range sts {
		for k := range s.mem {
			keys[k] = true
		}
	}
	if sameBase {
		out.base = sts[0].base
	} else {
		// differing havoc bases: materialise every sort known so far and start a fresh base
		for k := range fr.l().usedSorts {
			if k != "BigArr" {
				keys[k] = true
			}
		}
		// monotone ghost counters are materialised as well, so that "at least as large as before" survives the join
		for g := range fr.eng.cs.Monotone {
			keys[Sort("Int#"+g)] = true
		}
		fr.vc.n++
		out.base = &havocBase{id: fmt.Sprintf("j%d", fr.vc.n), prev: nil, syms: map[Sort]string{}}
		fr.vc.assumptions["state join after differing unmodelled calls: memories of sorts first used later are unconstrained"] = true
	}
	var ks []string
	for k := range keys {
		ks = append(ks, string(k))
	}
	sort.Strings(ks)
	for _, k := range ks {
		s := Sort(k)
		terms := make([]string, len(sts))
		allSame := true
		for i, st := range sts {
			terms[i] = fr.vc.memOf(st, s)
			if terms[i] != terms[0] {
				allSame = false
			}
		}
		if allSame {
			out.mem[s] = terms[0]
			continue
		}
		if fr.mergeByRows(&out, s, k, tag, edges, terms) {
			continue
		}
		m := fr.vc.freshRaw("M_"+k+"_"+tag, memSort(s))
		for i := range sts {
			fr.vc.assert(sImp(edges[i], sEq(m, terms[i])))
		}
		out.mem[s] = m
	}
	return out
}

// mergeByRows: when the memories to be joined all derive from a common ancestor by
// row/cell updates, the joined memory is *defined* as the ancestor with the touched
// rows replaced by per-edge selected rows. This keeps the derivation chain walkable
// (loads of untouched rows resolve to the ancestor at generation time).
func (fr *Frame) mergeByRows(out *State, s Sort, k, tag string, edges []string, terms []string) bool {
	vc := fr.vc
	anc := map[string]int{}
	cur := terms[0]
	for d := 0; d < 200; d++ {
		anc[cur] = d
		l := vc.links[cur]
		if l == nil || l.frame {
			break
		}
		cur = l.parent
	}
	// deepest common ancestor
	common := ""
	best := -1
	for a, d := range anc {
		ok := true
		for _, t := range terms[1:] {
			c := t
			found := false
			for dd := 0; dd < 200; dd++ {
				if c == a {
					found = true
					break
				}
				l := vc.links[c]
				if l == nil || l.frame {
					break
				}
				c = l.parent
			}
			if !found {
				ok = false
				break
			}
		}
		if ok && (best < 0 || d < best) {
			best = d
			common = a
		}
	}
	if common == "" {
		return false
	}
	var touched []string
	seen := map[string]bool{}
	for _, t := range terms {
		c := t
		for c != common {
			l := vc.links[c]
			if !seen[l.ref] {
				seen[l.ref] = true
				touched = append(touched, l.ref)
			}
			c = l.parent
		}
	}
	if len(touched) > 40 {
		return false
	}
	sort.Strings(touched)
	st := State{mem: map[Sort]string{s: common}, brk: out.brk}
	for _, r := range touched {
		row := vc.freshRaw("row_"+k+"_"+tag, "(Array Int "+s.elem()+")")
		for i := range terms {
			tmp := State{mem: map[Sort]string{s: terms[i]}}
			vc.assert(sImp(edges[i], sEq(row, vc.rowOf(&tmp, s, r))))
		}
		vc.setRow(&st, s, r, row)
	}
	out.mem[s] = st.mem[s]
	return true
}

// run executes the function body from the given entry state.
func (fr *Frame) run(entryReach string) {
	fr.prepareCFG()
	fr.computeNonEscaping()
	if fr.unsupported != "" {
		return
	}
	fr.reach = map[*ssa.BasicBlock]string{}
	fr.exit = map[*ssa.BasicBlock]*State{}
	fr.splitReturn = map[*ssa.BasicBlock]bool{}
	for _, b := range fr.order {
		var st State
		if b.Index == 0 {
			fr.reach[b] = entryReach
			st = fr.entry.clone()
		} else {
			var edges []string
			var sts []*State
			var preds []*ssa.BasicBlock
			for _, p := range b.Preds {
				if fr.backEdge[[2]int{p.Index, b.Index}] {
					continue
				}
				if _, ok := fr.reach[p]; !ok {
					continue
				}
				ec := sAnd(fr.reach[p], fr.edgeCond(p, b))
				if ec == "false" {
					// statically dead edge (a branch on a constant, e.g. `if debug.Debug`): the successor is
					// not executed along it and it takes no part in merges
					continue
				}
				e := fr.vc.bindBool("edge", ec)
				edges = append(edges, e)
				sts = append(sts, fr.exit[p])
				preds = append(preds, p)
			}
			if len(edges) == 0 {
				continue
			}
			r := fr.vc.bindBool(fmt.Sprintf("reach_b%d", b.Index), sOr(edges...))
			fr.reach[b] = r
			// a return block that only joins paths: report one return per incoming path, so that
			// postconditions are proved per path (algebraic goals need the un-merged values)
			if fr.top && len(preds) > 1 && fr.loops[b] == nil && pureReturnBlock(b) {
				ret := b.Instrs[len(b.Instrs)-1].(*ssa.Return)
				for i, p := range preds {
					var vals []string
					for _, res := range ret.Results {
						if phi, ok := res.(*ssa.Phi); ok && phi.Block() == b {
							for k, bp := range b.Preds {
								if bp == p {
									vals = append(vals, fr.val(phi.Edges[k])...)
								}
							}
						} else {
							vals = append(vals, fr.val(res)...)
						}
					}
					fr.rets = append(fr.rets, retInfo{reach: edges[i], vals: vals, st: sts[i].clone(), pos: ret.Pos(), blk: p})
				}
				fr.splitReturn[b] = true
			}
			if li := fr.loops[b]; li != nil {
				st = fr.enterLoop(li, preds, edges, sts)
			} else {
				st = fr.mergeStates(edges, sts, fmt.Sprintf("b%d", b.Index))
				// phis
				for _, in := range b.Instrs {
					phi, ok := in.(*ssa.Phi)
					if !ok {
						break
					}
					fr.mergePhi(b, phi, preds, edges)
				}
			}
		}
		fr.execBlock(b, &st)
		fr.exit[b] = &st
		// back edges out of this block: invariant preservation
		for _, s := range b.Succs {
			if fr.backEdge[[2]int{b.Index, s.Index}] {
				fr.checkLoopStep(fr.loops[s], b, &st)
			}
		}
	}
}

func (fr *Frame) mergePhi(b *ssa.BasicBlock, phi *ssa.Phi, preds []*ssa.BasicBlock, edges []string) {
	var vals [][]string
	for _, p := range preds {
		for i, bp := range b.Preds {
			if bp == p {
				vals = append(vals, fr.val(phi.Edges[i]))
				break
			}
		}
	}
	same := true
	for _, v := range vals[1:] {
		if strings.Join(v, " ") != strings.Join(vals[0], " ") {
			same = false
		}
	}
	if same {
		fr.regs[phi] = vals[0]
		return
	}
	c := fr.freshVal(phi.Name(), phi.Type())
	for i, v := range vals {
		var eqs []string
		for k := range c {
			if k < len(v) {
				eqs = append(eqs, sEq(c[k], v[k]))
			}
		}
		fr.vc.assert(sImp(edges[i], sAnd(eqs...)))
	}
	fr.regs[phi] = c
}

// ---------------------------------------------------------------------------
// loops

type writeSet struct {
	all      bool
	sorts    map[Sort]bool     // whole-sort havoc
	rows     map[Sort][]string // row-level havoc (ref terms, loop invariant)
	allocs   bool
}

func (fr *Frame) rootOf(v ssa.Value) ssa.Value {
	for {
		switch x := v.(type) {
		case *ssa.FieldAddr:
			v = x.X
		case *ssa.IndexAddr:
			v = x.X
		case *ssa.Slice:
			v = x.X
		case *ssa.ChangeType:
			v = x.X
		case *ssa.Call:
			// a call whose contract says `result == <parameter>` (method chaining): look through it
			if a := fr.aliasedArg(x); a != nil {
				v = a
				continue
			}
			return v
		default:
			return v
		}
	}
}

// aliasedArg: the argument a call's result is stated to be equal to (result == p in its contract)
func (fr *Frame) aliasedArg(c *ssa.Call) ssa.Value {
	cc := c.Common()
	if _, isB := cc.Value.(*ssa.Builtin); isB {
		return nil
	}
	tgt := fr.resolveCall(cc)
	var con *Contract
	keys := []string{tgt.name}
	if tgt.method != nil {
		keys = append(keys, tgt.method.FullName())
	}
	for _, k := range keys {
		if con = fr.eng.cs.lookup(k); con != nil {
			break
		}
	}
	if con == nil {
		return nil
	}
	alias := resultAlias(con)
	if alias == "" {
		return nil
	}
	names, _ := targetParams(tgt)
	var all []ssa.Value
	if cc.IsInvoke() {
		all = append(all, cc.Value)
	}
	all = append(all, cc.Args...)
	for i, n := range names {
		if (n == alias || (alias == "recv" && i == 0)) && i < len(all) {
			return all[i]
		}
	}
	return nil
}

func (fr *Frame) definedOutside(v ssa.Value, li *loopInfo) bool {
	switch x := v.(type) {
	case *ssa.Parameter, *ssa.Const, *ssa.Global, *ssa.FreeVar, *ssa.Function:
		return true
	case ssa.Instruction:
		return !li.body[x.Block()]
	}
	return false
}

// bigElemSorts: component sorts of the elements of a large array type (nil if unknown)
func (fr *Frame) bigElemSorts(t types.Type) []Sort {
	for {
		arr, ok := t.Underlying().(*types.Array)
		if !ok {
			break
		}
		t = arr.Elem()
	}
	if !fr.l().flatOK(t) {
		return nil
	}
	return uniqSorts(fr.l().layout(t))
}

func (fr *Frame) addWrite(ws *writeSet, li *loopInfo, addr ssa.Value, t types.Type) {
	var lay []Sort
	if !fr.l().flatOK(t) {
		lay = fr.bigElemSorts(t)
		if lay == nil {
			ws.all = true
			return
		}
	} else {
		lay = fr.l().layout(t)
	}
	root := fr.rootOf(addr)
	if fr.definedOutside(root, li) {
		if _, ok := fr.regs[root]; ok || isConstLike(root) {
			ref := fr.val(root)[0]
			for _, s := range lay {
				found := false
				for _, r := range ws.rows[s] {
					if r == ref {
						found = true
					}
				}
				if !found {
					ws.rows[s] = append(ws.rows[s], ref)
				}
			}
			return
		}
	}
	for _, s := range lay {
		ws.sorts[s] = true
	}
}

func isConstLike(v ssa.Value) bool {
	switch v.(type) {
	case *ssa.Parameter, *ssa.Const, *ssa.Global, *ssa.FreeVar:
		return true
	}
	return false
}

func (fr *Frame) loopWriteSet(li *loopInfo) *writeSet {
	ws := &writeSet{sorts: map[Sort]bool{}, rows: map[Sort][]string{}}
	for b := range li.body {
		for _, in := range b.Instrs {
			switch x := in.(type) {
			case *ssa.Store:
				fr.addWrite(ws, li, x.Addr, x.Val.Type())
			case *ssa.Alloc:
				ws.allocs = true
				for _, s := range fr.l().layoutSafe(x.Type().Underlying().(*types.Pointer).Elem()) {
					ws.sorts[s] = true // zero-initialisation of a fresh row; handled by the alloc frame below
				}
			case *ssa.MakeSlice:
				ws.allocs = true
				for _, s := range fr.l().layoutSafe(x.Type().Underlying().(*types.Slice).Elem()) {
					ws.sorts[s] = true
				}
			case *ssa.MakeMap, *ssa.MakeChan, *ssa.MakeClosure:
				ws.allocs = true
			case *ssa.MapUpdate:
				ws.sorts["Map"] = true
			case ssa.CallInstruction:
				fr.callWriteSet(ws, li, x)
			}
		}
	}
	return ws
}

func (l *Layouter) layoutSafe(t types.Type) []Sort {
	if !l.flatOK(t) {
		return nil
	}
	return l.layout(t)
}

func (fr *Frame) enterLoop(li *loopInfo, preds []*ssa.BasicBlock, edges []string, sts []*State) State {
	h := li.header
	vc := fr.vc
	fr.collectInvariants(li)
	// invariant on entry edges
	for i, p := range preds {
		phiMap := map[ssa.Value][]string{}
		for _, in := range h.Instrs {
			phi, ok := in.(*ssa.Phi)
			if !ok {
				break
			}
			for k, bp := range h.Preds {
				if bp == p {
					phiMap[phi] = fr.val(phi.Edges[k])
				}
			}
		}
		for _, inv := range li.invs {
			if inv.lemma {
				// a loop lemma also holds for the entry values
				if g, err := inv.eval(fr, sts[i], phiMap); err == nil {
					vc.assert(sImp(edges[i], g))
				}
			}
		}
		for _, inv := range li.invs {
			if inv.lemma {
				continue
			}
			g, err := inv.eval(fr, sts[i], phiMap)
			if err != nil {
				fr.contractError(fmt.Sprintf("loop %d invariant %q: %v", li.ordinal, inv.text, err))
				continue
			}
			lab := inv.label
			kind := fmt.Sprintf("inv-entry-loop%d", li.ordinal)
			vc.oblig(kind+fr.suffix, lab, edges[i], g, fr.pos(firstPos(h)), inv.props, "loop invariant holds on entry: "+inv.text)
		}
	}
	pre := fr.mergeStates(edges, sts, fmt.Sprintf("pre%d", h.Index))
	ws := fr.loopWriteSet(li)
	st := pre.clone()
	if ws.all {
		vc.havocAll(&st, fr.protectedOutside(li))
		nb := vc.fresh("brk_loop", SInt)
		vc.assert(app(">=", nb, pre.brk))
		st.brk = nb
	} else {
		if ws.allocs {
			nb := vc.fresh("brk_loop", SInt)
			vc.assert(app(">=", nb, pre.brk))
			st.brk = nb
		}
		sortsTouched := map[Sort]bool{}
		for s := range ws.sorts {
			sortsTouched[s] = true
		}
		for s := range ws.rows {
			sortsTouched[s] = true
		}
		var ss []string
		for s := range sortsTouched {
			ss = append(ss, string(s))
		}
		sort.Strings(ss)
		for _, k := range ss {
			s := Sort(k)
			if s == "Map" {
				continue
			}
			pm := vc.memOf(&pre, s)
			if ws.sorts[s] {
				// whole-sort havoc; rows of allocations made before the loop that are
				// non-escaping and not written in the loop are handled by row sets, so
				// here only the "allocated inside the loop" frame can be kept
				nm := vc.freshRaw("M_"+k+"_loop", memSort(s))
				if vc.monotoneSort(s) {
					vc.assertMonotone(nm, pm)
				}
				if fr.onlyAllocWrites(li, s) {
					// arrays that self-appended slice variables bring into the loop may be written in place
					for b := range li.body {
						for _, in := range b.Instrs {
							call, ok := in.(*ssa.Call)
							if !ok {
								continue
							}
							if bi, ok := call.Call.Value.(*ssa.Builtin); !ok || bi.Name() != "append" {
								continue
							}
							for _, e := range fr.selfAppended(li, fr.rootOf(call.Call.Args[0])) {
								if _, have := fr.regs[e]; have || isConstLike(e) {
									ref := fr.val(e)[0]
									dup := false
									for _, r := range ws.rows[s] {
										if r == ref {
											dup = true
										}
									}
									if !dup {
										ws.rows[s] = append(ws.rows[s], ref)
									}
								}
							}
						}
					}
					sort.Strings(ws.rows[s])
					var dist []string
					for _, r := range ws.rows[s] {
						dist = append(dist, sNot(sEq("r", r)))
					}
					vc.assert(fmt.Sprintf("(forall ((r Int)) (! (=> %s (= (select %s r) (select %s r))) :pattern ((select %s r))))",
						sAnd(append([]string{app("<", "r", pre.brk)}, dist...)...), nm, pm, nm))
					vc.links[nm] = &memLink{parent: pm, frame: true, before: vc.clock, roots: append([]string{}, ws.rows[s]...)}
				}
				st.mem[s] = nm
			} else {
				for _, r := range ws.rows[s] {
					row := vc.freshRaw("row_"+k, "(Array Int "+s.elem()+")")
					vc.setRow(&st, s, r, row)
				}
			}
		}
	}
	// havoc phis
	r := fr.reach[h]
	phiMap := map[ssa.Value][]string{}
	for _, in := range h.Instrs {
		phi, ok := in.(*ssa.Phi)
		if !ok {
			break
		}
		c := fr.freshVal(phi.Name()+"_"+phi.Comment, phi.Type())
		fr.regs[phi] = c
		li.phiHavoc[phi] = c
		phiMap[phi] = c
		fr.assumeTypeFacts(r, phi.Type(), c, &st)
	}
	for _, inv := range li.invs {
		g, err := inv.eval(fr, &st, phiMap)
		if err != nil {
			continue
		}
		vc.assert(sImp(r, g))
	}
	return st
}

// onlyAllocWrites: every write of sort s inside the loop that is not a row-level
// write goes to memory allocated inside the loop (zero-initialisation or stores
// through addresses rooted at loop-local allocations).
func (fr *Frame) onlyAllocWrites(li *loopInfo, s Sort) bool {
	for b := range li.body {
		for _, in := range b.Instrs {
			switch x := in.(type) {
			case *ssa.Store:
				if !fr.l().flatOK(x.Val.Type()) {
					return false
				}
				has := false
				for _, ls := range fr.l().layout(x.Val.Type()) {
					if ls == s {
						has = true
					}
				}
				if !has {
					continue
				}
				root := fr.rootOf(x.Addr)
				if fr.definedOutside(root, li) {
					continue // row-level
				}
				switch root.(type) {
				case *ssa.Alloc, *ssa.MakeSlice:
					continue
				}
				if os.Getenv("GOVC_DEBUG") != "" {
					fmt.Fprintf(os.Stderr, "onlyAllocWrites(%s): store %s root %T %s\n", s, x, root, root)
				}
				return false
			case ssa.CallInstruction:
				if !fr.callWritesOnlyRowsOrFresh(li, x, s) {
					if os.Getenv("GOVC_DEBUG") != "" {
						fmt.Fprintf(os.Stderr, "onlyAllocWrites(%s): call %s\n", s, x)
					}
					return false
				}
			}
		}
	}
	return true
}

func (fr *Frame) protectedOutside(li *loopInfo) []string {
	// non-escaping allocations made before the loop and not stored to inside it
	var out []string
	for a := range fr.nonEsc {
		in := a.(ssa.Instruction)
		if li.body[in.Block()] {
			continue
		}
		c, ok := fr.regs[a]
		if !ok {
			continue
		}
		written := false
		for b := range li.body {
			for _, i2 := range b.Instrs {
				if s, ok := i2.(*ssa.Store); ok && fr.rootOf(s.Addr) == a {
					written = true
				}
			}
		}
		if !written {
			out = append(out, c[0])
		}
	}
	sort.Strings(out)
	return out
}

func firstPos(b *ssa.BasicBlock) token.Pos {
	for _, in := range b.Instrs {
		if in.Pos().IsValid() {
			return in.Pos()
		}
	}
	for _, s := range b.Succs {
		for _, in := range s.Instrs {
			if in.Pos().IsValid() {
				return in.Pos()
			}
		}
	}
	return token.NoPos
}

func (fr *Frame) checkLoopStep(li *loopInfo, latch *ssa.BasicBlock, st *State) {
	h := li.header
	e := fr.vc.bindBool("backedge", sAnd(fr.reach[latch], fr.edgeCond(latch, h)))
	phiMap := map[ssa.Value][]string{}
	for _, in := range h.Instrs {
		phi, ok := in.(*ssa.Phi)
		if !ok {
			break
		}
		for k, bp := range h.Preds {
			if bp == latch {
				phiMap[phi] = fr.val(phi.Edges[k])
			}
		}
	}
	for _, inv := range li.invs {
		if inv.lemma {
			continue
		}
		g, err := inv.eval(fr, st, phiMap)
		if err != nil {
			continue
		}
		kind := fmt.Sprintf("inv-step-loop%d", li.ordinal)
		fr.vc.oblig(kind+fr.suffix, inv.label, e, g, fr.pos(firstPos(h)), inv.props, "loop invariant preserved: "+inv.text)
	}
}

// collectInvariants: automatic counting-loop bounds plus the contract's clauses
func (fr *Frame) collectInvariants(li *loopInfo) {
	h := li.header
	li.invs = nil
	for _, in := range h.Instrs {
		phi, ok := in.(*ssa.Phi)
		if !ok {
			break
		}
		if !isInteger(phi.Type()) {
			continue
		}
		// entry value and step
		var entryV ssa.Value
		var step ssa.Value
		okShape := true
		for k, p := range h.Preds {
			if fr.backEdge[[2]int{p.Index, h.Index}] {
				if step != nil && step != phi.Edges[k] {
					okShape = false
				}
				step = phi.Edges[k]
			} else {
				if entryV != nil && entryV != phi.Edges[k] {
					okShape = false
				}
				entryV = phi.Edges[k]
			}
		}
		if !okShape || entryV == nil || step == nil {
			continue
		}
		bo, ok := step.(*ssa.BinOp)
		if !ok || bo.Op != token.ADD || bo.X != ssa.Value(phi) {
			continue
		}
		kc, ok := bo.Y.(*ssa.Const)
		if !ok || kc.Value == nil || kc.Int64() <= 0 {
			continue
		}
		if !fr.definedOutside(entryV, li) {
			continue
		}
		ev := entryV
		li.invs = append(li.invs, invItem{text: fmt.Sprintf("auto: %s >= entry value", phi.Comment), eval: func(fr *Frame, st *State, pm map[ssa.Value][]string) (string, error) {
			return app(">=", pm[phi][0], fr.val(ev)[0]), nil
		}})
		// upper bound from the header's guard
		if iff, ok := h.Instrs[len(h.Instrs)-1].(*ssa.If); ok && kc.Int64() == 1 {
			if cmp, ok := iff.Cond.(*ssa.BinOp); ok && cmp.Op == token.LSS && li.body[h.Succs[0]] && !li.body[h.Succs[1]] {
				bound := cmp.Y
				// `i < len(s)` with s defined outside the loop: len(s) is loop invariant although go/ssa
				// recomputes it in the header
				var boundTerm func() string
				if fr.definedOutside(bound, li) {
					b0 := bound
					boundTerm = func() string { return fr.val(b0)[0] }
				} else if lc, ok := bound.(*ssa.Call); ok {
					if bi, ok := lc.Common().Value.(*ssa.Builtin); ok && bi.Name() == "len" && fr.definedOutside(lc.Common().Args[0], li) {
						if _, isSlice := lc.Common().Args[0].Type().Underlying().(*types.Slice); isSlice {
							a0 := lc.Common().Args[0]
							boundTerm = func() string { return fr.val(a0)[2] }
						}
					}
				}
				if boundTerm != nil {
					if cmp.X == ssa.Value(phi) {
						li.invs = append(li.invs, invItem{text: fmt.Sprintf("auto: %s <= max(bound, entry)", phi.Comment), eval: func(fr *Frame, st *State, pm map[ssa.Value][]string) (string, error) {
							x := pm[phi][0]
							return sOr(app("<=", x, boundTerm()), app("<=", x, fr.val(ev)[0])), nil
						}})
					} else if cmp.X == ssa.Value(bo) && bo.Block() == h {
						li.invs = append(li.invs, invItem{text: fmt.Sprintf("auto: %s+1 <= max(bound, entry+1)", phi.Comment), eval: func(fr *Frame, st *State, pm map[ssa.Value][]string) (string, error) {
							x := app("+", pm[phi][0], "1")
							return sOr(app("<=", x, boundTerm()), app("<=", x, app("+", fr.val(ev)[0], "1"))), nil
						}})
					}
				}
			}
		}
	}
	if fr.con != nil {
		for _, c := range fr.con.Loops[li.ordinal] {
			c := c
			if c.Lemma {
				fr.vc.assumptions[fmt.Sprintf("lemma instance (trusted) in %s, loop %d: %s", fr.vc.funcName, li.ordinal, c.Text)] = true
			}
			li.invs = append(li.invs, invItem{lemma: c.Lemma, text: c.Text, label: c.Label, props: c.Props, eval: func(fr *Frame, st *State, pm map[ssa.Value][]string) (string, error) {
				env := fr.newEnv(st)
				env.phi = pm
				env.loop = li
				v, err := env.evalBool(c.E)
				return v, err
			}})
		}
	}
}

func (fr *Frame) contractError(msg string) {
	// reported as a failed obligation, but nothing is assumed afterwards
	vc := fr.vc
	n := vc.counters["contract-error"]
	vc.counters["contract-error"] = n + 1
	var props []string
	if fr.con != nil {
		props = fr.con.Props
	}
	vc.obls = append(vc.obls, &Obl{Name: fmt.Sprintf("%s#contract-error%d", vc.funcName, n), Kind: "contract-error", Goal: "false", Reach: "true",
		LineIdx: len(vc.lines), Text: msg, Func: vc.funcName, Props: props})
}

package gkr

// Bounded stand-in (NOT a proof) for Solution.Export, which the verifier cannot reach (a generic Map over a closure
// returned by SliceAt: dynamic call). Bound: every permutation of n <= 6 instances (1+2+6+24+120+720 = 873 cases).
// For each, the real assignment.Permute stores the values the way Solve does and the real Solution.Export must hand
// them back in the caller's original instance order. Injected with `go test -overlay`; nothing is written to /repo.
import (
	"fmt"
	"testing"

	"github.com/consensys/gnark/constraint"
	"github.com/consensys/gnark/frontend"
	"github.com/consensys/gnark/internal/utils"
)

func permutations(n int) [][]int {
	if n == 0 {
		return [][]int{{}}
	}
	var out [][]int
	for _, p := range permutations(n - 1) {
		for pos := 0; pos <= len(p); pos++ {
			q := append(append(append([]int{}, p[:pos]...), n-1), p[pos:]...)
			out = append(out, q)
		}
	}
	return out
}

func TestBoundedExportOrder(t *testing.T) {
	cases, nontrivial := 0, 0
	for n := 1; n <= 6; n++ {
		for _, sorted := range permutations(n) {
			cases++
			inv := utils.InvertPermutation(sorted)
			involution := true
			for i := range sorted {
				if sorted[sorted[i]] != i {
					involution = false
				}
			}
			if !involution {
				nontrivial++
			}
			orig := make([]frontend.Variable, n)
			for i := range orig {
				orig[i] = 100 + i
			}
			a := assignment{append([]frontend.Variable{}, orig...)}
			p := constraint.GkrPermutations{SortedInstances: append([]int{}, sorted...), InstancesPermutation: append([]int{}, inv...),
				SortedWires: []int{0}, WiresPermutation: []int{0}}
			a.Permute(p)
			p.InstancesPermutation = append([]int{}, inv...) // Permute scratches on its argument
			p.WiresPermutation = []int{0}
			got := Solution{assignments: a, permutations: p}.Export(0)
			for i := range orig {
				if got[i] != orig[i] {
					t.Fatalf("BOUNDED-VIOLATION Export: sorted instances %v: position %d holds the value of instance %v, want instance %d (full result %v)", sorted, i, got[i], i, got)
				}
			}
		}
	}
	fmt.Printf("BOUNDED-OK cases=%d nontrivial=%d\n", cases, nontrivial)
}

package probe

import (
	"crypto/sha256"
	"sync"
	"testing"

	"github.com/consensys/gnark-crypto/ecc"
	"github.com/consensys/gnark/backend"
	"github.com/consensys/gnark/backend/groth16"
	"github.com/consensys/gnark/frontend"
	"github.com/consensys/gnark/frontend/cs/r1cs"
)

type CmR struct {
	X frontend.Variable
	Y frontend.Variable `gnark:",public"`
}

func (c *CmR) Define(api frontend.API) error {
	cm, err := api.(frontend.Committer).Commit(c.X)
	if err != nil {
		return err
	}
	api.AssertIsDifferent(cm, 0)
	api.AssertIsEqual(api.Mul(c.X, c.X), c.Y)
	return nil
}

// F6': one option VALUE (carrying a hash.Hash instance) shared by concurrent Verify calls
func TestF6primeSharedHashOption(t *testing.T) {
	field := ecc.BN254.ScalarField()
	ccs, _ := frontend.Compile(field, r1cs.NewBuilder, &CmR{})
	pk, vk, _ := groth16.Setup(ccs)
	h := sha256.New()
	popt := backend.WithProverHashToFieldFunction(h)
	vopt := backend.WithVerifierHashToFieldFunction(sha256.New())
	w, _ := frontend.NewWitness(&CmR{X: 3, Y: 9}, field)
	proof, err := groth16.Prove(ccs, pk, w, popt)
	if err != nil {
		t.Fatal(err)
	}
	pw, _ := w.Public()
	if err := groth16.Verify(proof, vk, pw, vopt); err != nil {
		t.Fatal("sequential verify failed: ", err)
	}
	var wg sync.WaitGroup
	var mu sync.Mutex
	bad := 0
	for g := 0; g < 8; g++ {
		wg.Add(1)
		go func() {
			defer wg.Done()
			for i := 0; i < 50; i++ {
				if err := groth16.Verify(proof, vk, pw, vopt); err != nil {
					mu.Lock()
					bad++
					mu.Unlock()
				}
			}
		}()
	}
	wg.Wait()
	t.Logf("F6' concurrent Verify of a VALID proof with one shared option value: %d of 400 calls rejected (0 expected)", bad)
}

package probe

import (
	"sync"
	"testing"

	"github.com/consensys/gnark/frontend"
	"github.com/consensys/gnark/frontend/cs/scs"
	"github.com/consensys/gnark/std/lookup/logderivlookup"
)

// ---- F4 (C10): per-solve lookup cache lives in the shared compiled system.
// On the unfixed tree this test panics inside the blueprint's critical section and then
// deadlocks (the mutex is never released): run it alone with a short -timeout.

type Lk struct {
	T [8]frontend.Variable
	Q [4]frontend.Variable
	R [4]frontend.Variable `gnark:",public"`
}

func (c *Lk) Define(api frontend.API) error {
	tb := logderivlookup.New(api)
	for i := range c.T {
		tb.Insert(c.T[i])
	}
	r := tb.Lookup(c.Q[:]...)
	for i := range r {
		api.AssertIsEqual(r[i], c.R[i])
	}
	return nil
}

func mkLk(seed int) *Lk {
	var a Lk
	for i := range a.T {
		a.T[i] = 100*seed + i
	}
	for i := range a.Q {
		a.Q[i] = (i + seed) % 8
		a.R[i] = 100*seed + (i+seed)%8
	}
	return &a
}

func TestF4ConcurrentLookup(t *testing.T) {
	ccs, err := frontend.Compile(field, scs.NewBuilder, &Lk{})
	if err != nil {
		t.Fatal(err)
	}
	var wg sync.WaitGroup
	var mu sync.Mutex
	fails, panics := 0, 0
	for g := 0; g < 8; g++ {
		wg.Add(1)
		go func(g int) {
			defer wg.Done()
			defer func() {
				if r := recover(); r != nil {
					mu.Lock()
					panics++
					mu.Unlock()
				}
			}()
			for it := 0; it < 200; it++ {
				w, _ := frontend.NewWitness(mkLk(g+1), field)
				if _, err := ccs.Solve(w); err != nil {
					mu.Lock()
					fails++
					mu.Unlock()
				}
			}
		}(g)
	}
	wg.Wait()
	t.Logf("F4 concurrent solves of VALID witnesses: failed=%d panics=%d (sequentially all succeed)", fails, panics)
}

package probe

import (
	"testing"

	"github.com/consensys/gnark-crypto/ecc"
	"github.com/consensys/gnark/constraint"
	"github.com/consensys/gnark/frontend"
	"github.com/consensys/gnark/frontend/cs/r1cs"
	"github.com/consensys/gnark/frontend/cs/scs"
	"github.com/consensys/gnark/std/math/emulated"
)

type L2 struct {
	B0, B1  frontend.Variable
	X, Y, Z emulated.Element[emulated.Secp256k1Fp]
	R       emulated.Element[emulated.Secp256k1Fp]
	UseMux  bool
}

func (c *L2) Define(api frontend.API) error {
	f, err := emulated.NewField[emulated.Secp256k1Fp](api)
	if err != nil {
		return err
	}
	var res *emulated.Element[emulated.Secp256k1Fp]
	if c.UseMux {
		sel := api.Add(c.B0, api.Mul(c.B1, 2))
		res = f.Mux(sel, f.One(), &c.X, &c.Y, &c.Z)
	} else {
		res = f.Lookup2(c.B0, c.B1, f.One(), &c.X, &c.Y, &c.Z)
	}
	f.AssertIsEqual(res, &c.R)
	return nil
}

func TestF10(t *testing.T) {
	field := ecc.BN254.ScalarField()
	big := "115792089237316195423570985008687907853269984665640564039457584007908834671000" // 4 full limbs
	for _, mux := range []bool{false, true} {
		for _, name := range []string{"r1cs", "scs"} {
			nb := frontend.NewBuilder(r1cs.NewBuilder[constraint.U64])
			if name == "scs" {
				nb = scs.NewBuilder[constraint.U64]
			}
			func() {
				defer func() {
					if r := recover(); r != nil {
						t.Logf("F10 mux=%v %s: PANIC %v", mux, name, r)
					}
				}()
				ccs, err := frontend.Compile(field, nb, &L2{UseMux: mux})
				if err != nil {
					msg := err.Error()
					if len(msg) > 90 {
						msg = msg[:90]
					}
					t.Logf("F10 mux=%v %s: compile err: %s", mux, name, msg)
					return
				}
				// select index 1 -> X
				w, _ := frontend.NewWitness(&L2{B0: 1, B1: 0,
					X: emulated.ValueOf[emulated.Secp256k1Fp](big), Y: emulated.ValueOf[emulated.Secp256k1Fp](7), Z: emulated.ValueOf[emulated.Secp256k1Fp](9),
					R: emulated.ValueOf[emulated.Secp256k1Fp](big)}, field)
				_, err = ccs.Solve(w)
				t.Logf("F10 mux=%v %s: select X (4-limb value) with first input One(): solve err = %v", mux, name, err)
			}()
		}
	}
}

package probe

import (
	"crypto/sha256"
	"encoding/binary"
	"math/big"
	"testing"

	"github.com/consensys/gnark-crypto/ecc"
	"github.com/consensys/gnark/constraint/solver"
	"github.com/consensys/gnark/frontend"
	"github.com/consensys/gnark/frontend/cs/scs"
	"github.com/consensys/gnark/std/hash/sha2"
	"github.com/consensys/gnark/std/math/bitslice"
	"github.com/consensys/gnark/std/math/uints"
)

// the circuit asserts SHA-256(Msg) == Digest (Digest public)
type ShaC struct {
	Msg    [3]uints.U8
	Digest [32]uints.U8 `gnark:",public"`
}

func (c *ShaC) Define(api frontend.API) error {
	h, err := sha2.New(api)
	if err != nil {
		return err
	}
	u, err := uints.New[uints.U32](api)
	if err != nil {
		return err
	}
	h.Write(c.Msg[:])
	d := h.Sum()
	for i := range d {
		u.ByteAssertEq(d[i], c.Digest[i])
	}
	return nil
}

func TestF12ForgeSha256(t *testing.T) {
	field := ecc.BN254.ScalarField()
	ccs, err := frontend.Compile(field, scs.NewBuilder, &ShaC{})
	if err != nil {
		t.Fatal(err)
	}
	msg := []byte("abc")
	real := sha256.Sum256(msg)
	mk := func(d [32]byte) *ShaC {
		var a ShaC
		copy(a.Msg[:], uints.NewU8Array(msg))
		copy(a.Digest[:], uints.NewU8Array(d[:]))
		return &a
	}
	w, _ := frontend.NewWitness(mk(real), field)
	pid := solver.GetHintID(bitslice.GetHints()[0])
	// count the partition-hint calls of an honest solve
	calls := 0
	honest := bitslice.GetHints()[0]
	_, err = ccs.Solve(w, solver.WithNbTasks(1), solver.OverrideHint(pid, func(m *big.Int, in, out []*big.Int) error {
		if in[0].Uint64() == 32 {
			calls++
		}
		return honest(m, in, out)
	}))
	t.Logf("honest solve: err=%v, 32-bit addition partition calls=%d", err, calls)

	// forged digest: 32 bytes of 0x42
	var fake [32]byte
	for i := range fake {
		fake[i] = 0x42
	}
	w2, _ := frontend.NewWitness(mk(fake), field)
	_, err = ccs.Solve(w2, solver.WithNbTasks(1))
	t.Logf("claim SHA256(\"abc\") = 4242…42 with honest hints: rejected=%v", err != nil)
	n := 0
	_, err = ccs.Solve(w2, solver.WithNbTasks(1), solver.OverrideHint(pid, func(m *big.Int, in, out []*big.Int) error {
		if err := honest(m, in, out); err != nil {
			return err
		}
		if in[0].Uint64() != 32 {
			return nil
		}
		for k := 0; k < 8; k++ {
			// the eight final additions are recognisable by their honest result: the k-th word of the real digest
			if out[1].IsUint64() && out[1].Uint64() == uint64(binary.BigEndian.Uint32(real[4*k:])) {
				out[1].SetUint64(uint64(binary.BigEndian.Uint32(fake[4*k:])))
				n++
			}
		}
		return nil
	}))
	t.Logf("claim SHA256(\"abc\") = 4242…42 with DISHONEST partition hints on the last 8 additions: solve err = %v (nil = forged digest accepted); overridden calls=%d", err, n)
}

package probe

import (
	"math/big"
	"testing"

	"github.com/consensys/gnark-crypto/ecc"
	"github.com/consensys/gnark/frontend"
	"github.com/consensys/gnark/frontend/cs/r1cs"
	"github.com/consensys/gnark/std/math/emulated"
)

type MC2 struct {
	X, Y, Z emulated.Element[emulated.Secp256k1Fp]
	R       emulated.Element[emulated.Secp256k1Fp] // expected (c*X + Y) * Z mod q
	C       int64
	ViaNeg  bool
}

func (c *MC2) Define(api frontend.API) error {
	f, err := emulated.NewField[emulated.Secp256k1Fp](api)
	if err != nil {
		return err
	}
	var res *emulated.Element[emulated.Secp256k1Fp]
	if c.ViaNeg { // what the code intends for negative constants
		res = f.MulConst(f.Neg(&c.X), big.NewInt(-c.C))
	} else {
		res = f.MulConst(&c.X, big.NewInt(c.C))
	}
	s := f.Add(res, &c.Y)
	t := f.Mul(s, &c.Z)
	f.AssertIsEqual(t, &c.R)
	return nil
}

func TestF11bMulConstNegativeThenMul(t *testing.T) {
	field := ecc.BN254.ScalarField()
	q := emulated.Secp256k1Fp{}.Modulus()
	x, _ := new(big.Int).SetString("115792089237316195423570985008687907853269984665640564039457584007908834670000", 10)
	y := big.NewInt(5)
	z, _ := new(big.Int).SetString("98765432109876543210987654321098765432109876543210", 10)
	for _, viaNeg := range []bool{false, true} {
		cst := int64(-3)
		exp := new(big.Int).Mul(x, big.NewInt(cst))
		exp.Add(exp, y).Mul(exp, z).Mod(exp, q)
		ccs, err := frontend.Compile(field, r1cs.NewBuilder, &MC2{C: cst, ViaNeg: viaNeg})
		if err != nil {
			t.Logf("compile err: %v", err)
			continue
		}
		w, _ := frontend.NewWitness(&MC2{
			X: emulated.ValueOf[emulated.Secp256k1Fp](x), Y: emulated.ValueOf[emulated.Secp256k1Fp](y), Z: emulated.ValueOf[emulated.Secp256k1Fp](z),
			R: emulated.ValueOf[emulated.Secp256k1Fp](exp)}, field)
		_, err = ccs.Solve(w)
		msg := "<nil>"
		if err != nil {
			msg = err.Error()
			if len(msg) > 120 {
				msg = msg[:120]
			}
		}
		t.Logf("F11b (MulConst(x,-3)+y)*z, intended-path=%v: solve err = %s", viaNeg, msg)
	}
}

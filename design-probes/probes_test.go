package probe

import (
	"bytes"
	"encoding/binary"
	"math/big"
	"testing"

	"github.com/consensys/gnark-crypto/ecc"
	curve "github.com/consensys/gnark-crypto/ecc/bn254"
	"github.com/consensys/gnark-crypto/ecc/bn254/fr"
	"github.com/consensys/gnark/backend"
	"github.com/consensys/gnark/backend/groth16"
	g16 "github.com/consensys/gnark/backend/groth16/bn254"
	"github.com/consensys/gnark/backend/plonk"
	p254 "github.com/consensys/gnark/backend/plonk/bn254"
	"github.com/consensys/gnark/backend/witness"
	"github.com/consensys/gnark/constraint"
	"github.com/consensys/gnark/constraint/solver"
	"github.com/consensys/gnark/frontend"
	"github.com/consensys/gnark/frontend/cs/r1cs"
	"github.com/consensys/gnark/frontend/cs/scs"
	"github.com/consensys/gnark/test/unsafekzg"
)

var field = ecc.BN254.ScalarField()

// ---- shared circuits

type Sq struct { // x*x == y, no commitment
	X frontend.Variable
	Y frontend.Variable `gnark:",public"`
}

func (c *Sq) Define(api frontend.API) error {
	api.AssertIsEqual(api.Mul(c.X, c.X), c.Y)
	return nil
}

type Cm struct { // one commitment
	X frontend.Variable
	Y frontend.Variable `gnark:",public"`
}

func (c *Cm) Define(api frontend.API) error {
	cm, err := api.(frontend.Committer).Commit(c.X)
	if err != nil {
		return err
	}
	api.AssertIsDifferent(cm, 0)
	api.AssertIsEqual(api.Mul(c.X, c.X), c.Y)
	return nil
}

// ---- F1 (C01, C08): Groth16 verifier never compares the number of commitments with the key

func TestF1Forge(t *testing.T) {
	ccs, _ := frontend.Compile(field, r1cs.NewBuilder, &Sq{})
	pk, vk, _ := groth16.Setup(ccs)
	w, _ := frontend.NewWitness(&Sq{X: 3, Y: 9}, field)
	proof, err := groth16.Prove(ccs, pk, w)
	if err != nil {
		t.Fatal(err)
	}
	w2, _ := frontend.NewWitness(&Sq{X: 3, Y: 10}, field) // false statement: 3*3 != 10
	pw2, _ := w2.Public()
	_vk := vk.(*g16.VerifyingKey)
	var d fr.Element
	d.SetInt64(-1) // (9 - 10)
	var C curve.G1Affine
	C.ScalarMultiplication(&_vk.G1.K[1], d.BigInt(new(big.Int)))
	forged := *proof.(*g16.Proof)
	forged.Commitments = []curve.G1Affine{C}
	var buf bytes.Buffer
	forged.WriteTo(&buf)
	var dec g16.Proof
	if _, err := dec.ReadFrom(&buf); err != nil {
		t.Fatal(err)
	}
	err = groth16.Verify(&dec, vk, pw2)
	t.Logf("F1 forged proof (decoded from bytes) for the FALSE statement y=10: Verify err = %v  (nil = defect)", err)
}

func TestF1Panic(t *testing.T) {
	ccs, _ := frontend.Compile(field, r1cs.NewBuilder, &Cm{})
	pk, vk, _ := groth16.Setup(ccs)
	w, _ := frontend.NewWitness(&Cm{X: 3, Y: 9}, field)
	proof, _ := groth16.Prove(ccs, pk, w)
	pw, _ := w.Public()
	trunc := *proof.(*g16.Proof)
	trunc.Commitments = nil
	func() {
		defer func() { t.Logf("F1 fewer commitments: recovered panic = %v", recover()) }()
		t.Logf("F1 fewer commitments: err = %v", groth16.Verify(&trunc, vk, pw))
	}()
}

// ---- F2 (C08): PLONK verifier indexes ClaimedValues before any length check

func TestF2PlonkPanic(t *testing.T) {
	ccs, _ := frontend.Compile(field, scs.NewBuilder, &Sq{})
	srs, srsL, _ := unsafekzg.NewSRS(ccs)
	pk, vk, _ := plonk.Setup(ccs, srs, srsL)
	w, _ := frontend.NewWitness(&Sq{X: 3, Y: 9}, field)
	proof, _ := plonk.Prove(ccs, pk, w)
	pw, _ := w.Public()
	trunc := *proof.(*p254.Proof)
	trunc.BatchedProof.ClaimedValues = trunc.BatchedProof.ClaimedValues[:3]
	var buf bytes.Buffer
	trunc.WriteTo(&buf)
	var dec p254.Proof
	dec.ReadFrom(&buf)
	func() {
		defer func() { t.Logf("F2 recovered panic = %v", recover()) }()
		t.Logf("F2 err = %v", plonk.Verify(&dec, vk, pw))
	}()
}

// ---- F3 (C07, C08): witness header not compared with the payload

func TestF3WitnessHeader(t *testing.T) {
	w, _ := frontend.NewWitness(&Sq{X: 3, Y: 9}, field)
	b, _ := w.MarshalBinary()
	binary.BigEndian.PutUint32(b[0:4], 5)
	binary.BigEndian.PutUint32(b[4:8], 7)
	w2, _ := witness.New(field)
	err := w2.UnmarshalBinary(b)
	t.Logf("F3 unmarshal of inconsistent header: err = %v (nil = defect)", err)
	if err == nil {
		pub, _ := w2.Public()
		t.Logf("F3 Public() = %v (contains the secret 3 and fabricated zeros)", pub.Vector())
	}
}

// ---- F5 (C10): PLONK prover appends into the caller's option slice

func TestF5OptionSlice(t *testing.T) {
	ccs, _ := frontend.Compile(field, scs.NewBuilder, &Sq{})
	srs, srsL, _ := unsafekzg.NewSRS(ccs)
	pk, _, _ := plonk.Setup(ccs, srs, srsL)
	w, _ := frontend.NewWitness(&Sq{X: 3, Y: 9}, field)
	shared := make([]solver.Option, 1, 4)
	shared[0] = solver.WithNbTasks(1)
	backing := shared[:4]
	if _, err := plonk.Prove(ccs, pk, w, backend.WithSolverOptions(shared...)); err != nil {
		t.Fatal(err)
	}
	t.Logf("F5 caller's backing array slot [1] written by Prove: %v (true = defect)", backing[1] != nil)
}

// ---- F6 (C11): constraints added in map-iteration order

type Nd struct {
	A [12]frontend.Variable
	B frontend.Variable
}

type wireQuery interface {
	GetWireConstraints(wires []frontend.Variable, addMissing bool) ([][2]int, error)
	GetWiresConstraintExact(wires []frontend.Variable, addMissing bool) ([][2]int, error)
}

var f6Exact bool

func (c *Nd) Define(api frontend.API) error {
	api.AssertIsDifferent(c.B, 0)
	q := api.Compiler().(wireQuery)
	var err error
	if f6Exact {
		_, err = q.GetWiresConstraintExact(c.A[:], true)
	} else {
		_, err = q.GetWireConstraints(c.A[:], true)
	}
	return err
}

func TestF6Determinism(t *testing.T) {
	for _, exact := range []bool{false, true} {
		f6Exact = exact
		var first []byte
		diff := 0
		for i := 0; i < 30; i++ {
			ccs, err := frontend.Compile(field, scs.NewBuilder, &Nd{})
			if err != nil {
				t.Fatal(err)
			}
			var buf bytes.Buffer
			ccs.WriteTo(&buf)
			if first == nil {
				first = buf.Bytes()
			} else if !bytes.Equal(first, buf.Bytes()) {
				diff++
			}
		}
		t.Logf("F6 exact=%v: %d of 29 recompilations differ from the first (0 = deterministic)", exact, diff)
	}
}

// ---- F7 (C06, C04): sparse solver fails on a satisfiable gate (0/0)

type Dv struct {
	X, Y frontend.Variable
	Z    frontend.Variable `gnark:",public"`
}

func (c *Dv) Define(api frontend.API) error {
	q := api.DivUnchecked(c.X, c.Y)
	api.AssertIsEqual(api.Add(q, c.Z), c.Z)
	return nil
}

func TestF7DivUnchecked(t *testing.T) {
	w, _ := frontend.NewWitness(&Dv{X: 0, Y: 0, Z: 5}, field)
	c1, _ := frontend.Compile(field, r1cs.NewBuilder, &Dv{})
	_, e1 := c1.Solve(w)
	c2, _ := frontend.Compile(field, scs.NewBuilder, &Dv{})
	_, e2 := c2.Solve(w)
	t.Logf("F7 r1cs solve err = %v ; scs solve err = %v (they should agree)", e1, e2)
}

// ---- F8 (C13, C01): r1cs.Commit indexes the advanced slice with an index into the original list

type C3 struct{ A frontend.Variable }

func (c *C3) Define(api frontend.API) error {
	cm := api.(frontend.Committer)
	c0, err := cm.Commit(c.A)
	if err != nil {
		return err
	}
	b2 := api.Mul(c.A, api.Add(c.A, 1))
	b := api.Mul(c.A, api.Add(c.A, 2))
	c1, err := cm.Commit(b)
	if err != nil {
		return err
	}
	z := api.Mul(c.A, api.Add(c.A, 3))
	c2, err := cm.Commit(z)
	if err != nil {
		return err
	}
	c3, err := cm.Commit(b2, b) // b was committed by c1 => must bind c1's wire
	if err != nil {
		return err
	}
	api.AssertIsDifferent(c0, c1)
	api.AssertIsDifferent(c1, c2)
	api.AssertIsDifferent(c2, c3)
	return nil
}

func TestF8CommitIndex(t *testing.T) {
	ccs, err := frontend.Compile(field, r1cs.NewBuilder, &C3{})
	if err != nil {
		t.Fatalf("compile err: %v", err)
	}
	ci := ccs.GetCommitments().(constraint.Groth16Commitments)
	t.Logf("F8 commitment wires: c1=%d c2=%d ; commitment 3 binds %v (must be [c1's wire])",
		ci[1].CommitmentIndex, ci[2].CommitmentIndex, ci[3].PublicAndCommitmentCommitted)
}

// ---- F9 (C04): sparse builder's add-gate de-duplication divides by a zero coefficient

type Dd struct {
	Y, Z frontend.Variable
	O    frontend.Variable `gnark:",public"`
}

func (c *Dd) Define(api frontend.API) error {
	o1 := api.Add(c.Y, c.Z, api.Neg(c.Z))
	o2 := api.Add(api.Mul(c.Y, 3), c.Z, api.Neg(c.Z))
	api.AssertIsEqual(api.Add(o1, o2), c.O)
	return nil
}

func TestF9Dedup(t *testing.T) {
	_, e1 := frontend.Compile(field, r1cs.NewBuilder, &Dd{})
	_, e2 := frontend.Compile(field, scs.NewBuilder, &Dd{})
	msg := "<nil>"
	if e2 != nil {
		msg = e2.Error()
		if len(msg) > 40 {
			msg = msg[:40]
		}
	}
	t.Logf("F9 r1cs compile err = %v ; scs compile err = %s (they should agree)", e1, msg)
}

#!/bin/bash
# confirm_seed.sh <seed dir> <demo dest dir (relative to repo)> <demo run regexp> <regression test packages...>
# Confirms in the scratch worktree /tmp/wt/eval (at /repo's HEAD): builds with the change, the demo FAILS with the
# change and PASSES without it, the given existing test packages pass with the change. Writes <seed dir>/confirm.log
export GOFLAGS=-mod=mod GOPROXY=off GOSUMDB=off GOTOOLCHAIN=local
sd="$1"; dest="$2"; run="$3"; shift 3
wt=/tmp/wt/eval-$$
git -C /repo worktree add -q --detach $wt HEAD || exit 2
trap 'git -C /repo worktree remove --force '$wt EXIT
cd $wt
patch="$sd/patch.diff"; [ -f "$sd/patch.rebased.diff" ] && patch="$sd/patch.rebased.diff"
log="$sd/confirm.log"; : > $log
demo=$(ls $sd/demo*_test.go $sd/*_test.go 2>/dev/null | head -1)
cp "$demo" "$dest/zz_seed_demo_test.go"
echo "## demo WITHOUT change (must pass)" >> $log
go test -p 6 -vet=off -count=1 -timeout 30m -run "$run" ./$dest/ >> $log 2>&1; a=$?
git apply "$patch" || { echo "PATCH DOES NOT APPLY" >> $log; exit 3; }
echo "## build WITH change" >> $log
go build -p 6 ./... >> $log 2>&1; b=$?
echo "## demo WITH change (must fail)" >> $log
go test -p 6 -vet=off -count=1 -timeout 30m -run "$run" ./$dest/ >> $log 2>&1; c=$?
rm "$dest/zz_seed_demo_test.go"
echo "## existing tests WITH change (must pass): $*" >> $log
go test -p 6 -vet=off -count=1 -timeout 60m "$@" >> $log 2>&1; d=$?
echo "RESULT demo_without=$a build=$b demo_with=$c existing_tests=$d" >> $log
if [ $a = 0 ] && [ $b = 0 ] && [ $c != 0 ] && [ $d = 0 ]; then echo "CONFIRMED" >> $log; else echo "NOT CONFIRMED" >> $log; fi
tail -2 $log

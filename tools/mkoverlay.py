#!/usr/bin/env python3
"""mkoverlay.py <patch> [repo] [-R]: prints an overlay JSON {absolute path: patched content} for govc -overlay.
The patch is applied to copies of the touched files only; /repo itself is not modified."""
import sys, os, re, json, subprocess, tempfile, shutil
patch = os.path.abspath(sys.argv[1])
repo = sys.argv[2] if len(sys.argv) > 2 and not sys.argv[2].startswith('-') else "/repo"
rev = "-R" in sys.argv
files = []
for l in open(patch):
    m = re.match(r'^\+\+\+ b/(\S+)', l) or re.match(r'^--- a/(\S+)', l)
    if m and m.group(1) not in files and m.group(1) != "/dev/null":
        files.append(m.group(1))
tmp = tempfile.mkdtemp(prefix="ov")
try:
    for f in files:
        os.makedirs(os.path.dirname(os.path.join(tmp, f)), exist_ok=True)
        if os.path.exists(os.path.join(repo, f)):
            shutil.copy(os.path.join(repo, f), os.path.join(tmp, f))
    cmd = ["patch", "-p1", "-s", "-d", tmp, "-i", patch] + (["-R"] if rev else [])
    r = subprocess.run(cmd, capture_output=True, text=True)
    if r.returncode != 0:
        sys.stderr.write("patch failed: " + r.stdout + r.stderr + "\n")
        sys.exit(3)
    out = {}
    for f in files:
        p = os.path.join(tmp, f)
        if os.path.exists(p):
            out[os.path.join(repo, f)] = open(p).read()
    json.dump(out, sys.stdout)
finally:
    shutil.rmtree(tmp)

#!/usr/bin/env python3
"""bounded.py <PROP>: run the bounded stand-ins of a property (bounded/<PROP>/*_test.go, injected into the package named in
bounded/<PROP>/PKG with `go test -overlay`; /repo is not written). Adds coverage.bounded to the evidence file. A bounded
check is labelled bounded and never counted among the proved obligations. Exit 1 + VIOLATION line on a failing case."""
import sys, os, json, subprocess, glob, re, time, tempfile
prop = sys.argv[1]
d = "/verif/bounded/%s" % prop
if not os.path.isdir(d):
    sys.exit(0)
pkg = open(os.path.join(d, "PKG")).read().strip()
files = sorted(glob.glob(os.path.join(d, "*_test.go")))
ov = {"Replace": {"/repo/%s/%s" % (pkg, os.path.basename(f)): f for f in files}}
fd, ovp = tempfile.mkstemp(prefix="verif-ov-", suffix=".json", dir="/var/tmp")
os.write(fd, json.dumps(ov).encode()); os.close(fd)
env = dict(os.environ, GOFLAGS="-mod=mod", GOPROXY="off", GOSUMDB="off", GOTOOLCHAIN="local")
cmd = ["go", "test", "-overlay", ovp, "-vet=off", "-count=1", "-timeout", "300s", "-v", "-run", "TestBounded", "./%s/" % pkg]
t0 = time.time()
r = subprocess.run(cmd, cwd="/repo", env=env, capture_output=True, text=True)
os.unlink(ovp)
out = r.stdout + r.stderr
wall = time.time() - t0
ok = re.search(r"BOUNDED-OK cases=(\d+) nontrivial=(\d+)", out)
viol = re.findall(r"BOUNDED-VIOLATION (.*)", out)
info = {"label": "bounded stand-in, not a proof", "function": "(std/gkr.Solution).Export", "bound": "all permutations of n <= 6 instances",
        "cmd": "go test -overlay <bounded/%s/*_test.go -> %s> -run TestBounded ./%s/" % (prop, pkg, pkg), "wall_s": round(wall, 2),
        "cases": int(ok.group(1)) if ok else 0, "nontrivial_cases": int(ok.group(2)) if ok else 0, "exhaustive_within_bound": bool(ok),
        "violations": viol}
ev = "/verif/evidence/%s.json" % prop
rc = 0
if os.path.exists(ev):
    e = json.load(open(ev))
    e["coverage"]["bounded"] = info
    e.setdefault("assumptions", []).append("bounded (not proved): (std/gkr.Solution).Export returns the stored values in the caller's instance order -- checked for every permutation of at most 6 instances on the real Permute / Export code")
    if viol or not ok:
        e["violations"] = e.get("violations", 0) + 1
    json.dump(e, open(ev, "w"), indent=1)
if viol or not ok:
    os.makedirs("/verif/replay/out/%s" % prop, exist_ok=True)
    rp = "/verif/replay/out/%s/bounded-Export.json" % prop
    json.dump({"property": prop, "kind": "bounded", "obligation": "(std/gkr.Solution).Export#bounded(original-order)",
               "failing_input": viol[0] if viol else None, "replay_cmd": "python3 /verif/tools/bounded.py %s" % prop, "output": out[-4000:]}, open(rp, "w"), indent=1)
    suffix = "" if viol else " no-failing-input-found"
    print("VIOLATION property=%s replay=%s%s" % (prop, rp, suffix))
    print("  bounded obligation (std/gkr.Solution).Export#bounded(original-order): %s" % (viol[0] if viol else "the bounded test did not run to completion"))
    rc = 1
else:
    print("%s bounded: %d cases (%d with a non-involution permutation), all pass, %.1fs  [bounded stand-in, not counted as proved]" % (prop, info["cases"], info["nontrivial_cases"], wall))
sys.exit(rc)

#!/usr/bin/env python3
"""manifest_claim.py <PROP> <category> <json-file with technique/text/note>: add or replace the check entry of a property,
drop it from not_applicable, record /repo HEAD as a hook commit"""
import json, sys, subprocess
prop, cat, f = sys.argv[1:4]
d = json.load(open(f))
m = json.load(open('/verif/MANIFEST.json'))
e = {"property_id": prop, "quick_cmd": "./check %s --tier quick" % prop, "thorough_cmd": "./check %s --tier thorough" % prop,
     "evidence_file": "/verif/evidence/%s.json" % prop, "replay_cmd_template": "./check replay {path}", "engine": "govc",
     "technique": d["technique"], "level_claimed": {"category": cat, "text": d["text"], "design_ref": d.get("design_ref", "DESIGN.md section 9")},
     "level_note": d["note"]}
m["checks"] = [c for c in m["checks"] if c["property_id"] != prop] + [e]
m["checks"].sort(key=lambda c: c["property_id"])
m["not_applicable"] = [n for n in m.get("not_applicable", []) if n["property_id"] != prop]
for eng in m.get("engines", []):
    if prop not in eng["serves_properties"]:
        eng["serves_properties"] = sorted(set(eng["serves_properties"] + [c["property_id"] for c in m["checks"]]))
json.dump(m, open('/verif/MANIFEST.json', 'w'), indent=1)

#!/usr/bin/env python3
"""Replicates the bn254 contract files (comment-only, build tag verif) to the other six curve
instantiations by textual curve-name substitution (what gnark's own generator does for the code)."""
import os, sys
REPO = sys.argv[1] if len(sys.argv) > 1 else "/repo"
CURVES = ["bls12-377", "bls12-381", "bls24-315", "bls24-317", "bw6-633", "bw6-761"]
DIRS = ["backend/groth16/%s", "backend/plonk/%s", "constraint/%s", "backend/groth16/%s/mpcsetup"]
n = 0
for d in DIRS:
    src = os.path.join(REPO, d % "bn254", "contracts_verif.go")
    if not os.path.exists(src):
        continue
    text = open(src).read()
    for c in CURVES:
        dst = os.path.join(REPO, d % c, "contracts_verif.go")
        out = text.replace("bn254", c)
        if not os.path.exists(dst) or open(dst).read() != out:
            open(dst, "w").write(out)
            n += 1
print("gencontracts: %d file(s) written" % n)

#!/bin/bash
# robust.sh <PROP>: seed-sensitivity sweep of the obligations of a property that the incremental session did not
# settle (the ones raced standalone): each is run under 3 seeds of both z3 versions; prints those that few prove
cd /verif
prop="$1"
out=$(bin/govc verify -prop "$prop" -keep 2>&1 | grep "SMT files" | awk '{print $4}')
[ -d "$out" ] || { echo "no smt dir"; exit 1; }
for f in "$out"/*.smt2; do
  case "$f" in *session*) continue;; esac
  ok=0
  for sd in 0 4 8; do r=$(timeout 12 z3-new smt.random_seed=$sd "$f" 2>/dev/null | head -1); [ "$r" = unsat ] && ok=$((ok+1)); done
  for sd in 0 4 8; do r=$(timeout 12 /usr/bin/z3 smt.random_seed=$sd "$f" 2>/dev/null | head -1); [ "$r" = unsat ] && ok=$((ok+1)); done
  echo "$ok/6 $(basename "$f")"
done | sort -n
rm -rf "$out"

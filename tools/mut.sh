#!/bin/bash
# mut.sh <name> <repo-relative file> <sed expression> <prop> [only-regexp]: make a mutant patch from a sed edit (the repo
# is restored at once), store it in selftest/mutants/<name>.patch and run the property against it through an overlay
name="$1"; file="$2"; expr="$3"; prop="$4"; only="${5:-.}"
cd /repo && cp "$file" /tmp/mut.bak && sed -i "$expr" "$file" && git diff -- "$file" > /verif/selftest/mutants/$name.patch; cp /tmp/mut.bak "$file"
if ! [ -s /verif/selftest/mutants/$name.patch ]; then echo "EMPTY PATCH"; exit 2; fi
cd /verif && python3 tools/mkoverlay.py selftest/mutants/$name.patch /repo > /tmp/mut-ov.json && ./bin/govc verify -prop $prop -only "$only" -overlay /tmp/mut-ov.json 2>&1 | grep "obligation\|^$prop" | cut -c1-170

#!/usr/bin/env python3
"""sensitivity.py <prop> <selftest output>: records in the property's evidence file how many entries of the
must-fail corpus (changes applied in memory) failed their named obligation during a thorough run."""
import json, sys
prop, f = sys.argv[1], sys.argv[2]
lines = open(f).read().splitlines()
ok = [l[5:].split(':')[0].strip() for l in lines if l.startswith('ok   ') and 'toy' not in l]
bad = [l[5:].split(':')[0].strip() for l in lines if l.startswith('FAIL ')]
p = '/verif/evidence/%s.json' % prop
e = json.load(open(p))
e['coverage']['sensitivity'] = {
    'corpus_entries': len(ok) + len(bad), 'failed_as_required': len(ok), 'not_detected': bad,
    'what': 'each entry is a change to /repo applied in memory (own mutants, reversed fix diffs, independently seeded changes); the named obligation must fail'}
json.dump(e, open(p, 'w'), indent=1)
print('sensitivity: %d of %d corpus changes for %s fail their named obligation' % (len(ok), len(ok) + len(bad), prop))

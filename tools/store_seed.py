#!/usr/bin/env python3
"""store_seed.py <id> <n> <name> <property> <detected-by or 'MISSED: reason'> <needs...>: copies a confirmed seeded change into /verif/seeded/<name>/"""
import sys, os, shutil, json
sid, n, name, prop, detected = sys.argv[1:6]
needs = " ".join(sys.argv[6:])
src = "/tmp/seed/%s/%s" % (sid, n)
dst = "/verif/seeded/%s" % name
os.makedirs(dst, exist_ok=True)
patch = os.path.join(src, "patch.rebased.diff") if os.path.exists(os.path.join(src, "patch.rebased.diff")) else os.path.join(src, "patch.diff")
shutil.copy(patch, os.path.join(dst, "patch.diff"))
if patch.endswith("rebased.diff"):
    shutil.copy(os.path.join(src, "patch.diff"), os.path.join(dst, "patch.original-f97c049.diff"))
for f in os.listdir(src):
    if f.endswith("_test.go") or f == "NOTES.md" or f == "confirm.log":
        shutil.copy(os.path.join(src, f), os.path.join(dst, f))
log = open(os.path.join(src, "confirm.log")).read() if os.path.exists(os.path.join(src, "confirm.log")) else ""
meta = {"property": prop, "origin": "independent sub-agent given only the property text and a scratch worktree (no access to /verif)",
        "needs_to_manifest": needs,
        "confirmed": "CONFIRMED" in log and "NOT CONFIRMED" not in log,
        "what_was_run": "tools/confirm_seed.sh in a scratch worktree of /repo HEAD: go build ./... with the change; the demonstration test without the change (pass) and with it (fail); the existing tests of the touched packages with the change (pass); see confirm.log",
        "check_result": detected}
json.dump(meta, open(os.path.join(dst, "meta.json"), "w"), indent=1)
print("stored", dst)

#!/usr/bin/env python3
"""hookcommit.py: append /repo HEAD (short) to MANIFEST.hooks.source_commits if absent"""
import json, subprocess
h = subprocess.check_output(["git", "-C", "/repo", "rev-parse", "--short", "HEAD"]).decode().strip()
m = json.load(open('/verif/MANIFEST.json'))
if h not in m["hooks"]["source_commits"]:
    m["hooks"]["source_commits"].append(h)
    json.dump(m, open('/verif/MANIFEST.json', 'w'), indent=1)
print(h)

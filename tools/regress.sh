#!/bin/bash
# regress.sh: run every claimed property (quick tier) and print one line each; exit 1 if any fails
cd /verif
fail=0
for p in $(python3 -c "import json;print(' '.join(c['property_id'] for c in json.load(open('MANIFEST.json'))['checks']))"); do
  out=$(./check $p --tier quick 2>&1); rc=$?
  echo "$(echo "$out" | tail -1) [exit $rc]"
  [ $rc -ne 0 ] && { fail=1; echo "$out" | grep -E "VIOLATION|obligation" | head -5 | cut -c1-200; }
done
exit $fail
